//! PAR — `ParallelPipeline` under the controlled scheduler (C17, partial claim).
//!
//! The worker threads that `ParallelPipeline::execute` spawns in a `std::thread::scope` are
//! handed to the simulator through the scoped-thread seam and run as shuttle threads; which
//! worker obtains which morsel, who steals from whom and when each worker appends its
//! partial result is decided by the recorded schedule (lock seam on the scheduler's and
//! the collector's mutexes, hooked atomics in scheduler.rs / pipeline.rs). The oracle is a
//! brute-force sequential evaluation of the same chain over the same table.

use std::collections::BTreeMap;
use std::sync::Arc;

use grafeo_common::memory::buffer::PressureLevel;
use grafeo_common::types::Value;
use grafeo_core::execution::DataChunk;
use grafeo_core::execution::operators::push::{
    AggregateExpr, AggregatePushOperator, ColumnPredicate, CompareOp, DistinctPushOperator, FilterPushOperator, SortKey, SortPushOperator,
};
use grafeo_core::execution::parallel::{CloneableOperatorFactory, ParallelPipeline, ParallelPipelineConfig, ParallelVectorSource};
use serde::{Deserialize, Serialize};
use serde_json::json;
use shuttle::scheduler::{PctScheduler, RandomScheduler, ReplayScheduler, Scheduler};

use crate::fw::{Finding, RunOut, guarded, panic_class};
use crate::prng::{Prng, fnv};
use crate::simlock::{self, Recording};

#[derive(Clone, Debug, PartialEq, Serialize, Deserialize)]
pub enum Chain {
    Passthrough,
    Filter(i64),
    Sort,
    Distinct,
    FilterDistinct(i64),
    AggGlobal,
    AggGrouped,
}

#[derive(Clone, Debug, Serialize, Deserialize)]
pub struct Scenario {
    pub rows: usize,
    pub workers: usize,
    pub chunk_size: usize,
    pub chain: Chain,
    /// table generator: value domain of column 0 and 1, fraction of nulls (1/n, 0 = none)
    pub dom0: i64,
    pub dom1: i64,
    pub null_every: usize,
    pub table_seed: u64,
}

fn table(sc: &Scenario) -> (Vec<Value>, Vec<Value>) {
    let mut rng = Prng::new(sc.table_seed);
    let mut c0 = Vec::with_capacity(sc.rows);
    let mut c1 = Vec::with_capacity(sc.rows);
    for i in 0..sc.rows {
        if sc.null_every > 0 && i % sc.null_every == sc.null_every - 1 {
            c0.push(Value::Null);
        } else {
            c0.push(Value::Int64(rng.below(sc.dom0.max(1) as u64) as i64 - sc.dom0 / 2));
        }
        c1.push(Value::Int64(rng.below(sc.dom1.max(1) as u64) as i64));
    }
    (c0, c1)
}

fn rowkey(a: &Value, b: &Value) -> String {
    format!("{a:?}|{b:?}")
}

fn as_i(v: &Value) -> Option<i64> {
    match v {
        Value::Int64(i) => Some(*i),
        _ => None,
    }
}

/// Sequential reference (brute force) as a canonical multiset / aggregate description.
fn reference(sc: &Scenario) -> Vec<String> {
    let (c0, c1) = table(sc);
    let rows: Vec<(Value, Value)> = c0.into_iter().zip(c1).collect();
    let pass = |c: i64, r: &(Value, Value)| as_i(&r.0).is_some_and(|v| v > c);
    let mut out: Vec<String> = match &sc.chain {
        Chain::Passthrough | Chain::Sort => rows.iter().map(|r| rowkey(&r.0, &r.1)).collect(),
        Chain::Filter(c) => rows.iter().filter(|r| pass(*c, r)).map(|r| rowkey(&r.0, &r.1)).collect(),
        Chain::Distinct => {
            let mut v: Vec<String> = rows.iter().map(|r| rowkey(&r.0, &r.1)).collect();
            v.sort();
            v.dedup();
            v
        }
        Chain::FilterDistinct(c) => {
            let mut v: Vec<String> = rows.iter().filter(|r| pass(*c, r)).map(|r| rowkey(&r.0, &r.1)).collect();
            v.sort();
            v.dedup();
            v
        }
        Chain::AggGlobal => {
            let vals: Vec<i64> = rows.iter().filter_map(|r| as_i(&r.0)).collect();
            vec![format!("count*={} count0={} sum={} min={:?} max={:?}", rows.len(), vals.len(), vals.iter().sum::<i64>(), vals.iter().min(), vals.iter().max())]
        }
        Chain::AggGrouped => {
            let mut g: BTreeMap<i64, (i64, i64)> = BTreeMap::new();
            for r in &rows {
                let e = g.entry(as_i(&r.1).unwrap_or(-1)).or_insert((0, 0));
                e.0 += 1;
                e.1 += as_i(&r.0).unwrap_or(0);
            }
            g.iter().map(|(k, (c, s))| format!("g{k}: count*={c} sum={s}")).collect()
        }
    };
    out.sort();
    out
}

/// Turns the pipeline's output (one partial result per worker for breaker chains) into the
/// same canonical form, merging partials the way the chain's breaker defines.
fn canonical(sc: &Scenario, chunks: &[DataChunk]) -> Result<Vec<String>, String> {
    let mut rows: Vec<Vec<Value>> = Vec::new();
    for ch in chunks {
        let n = ch.row_count();
        for idx in ch.selected_indices().take(n.max(ch.total_row_count())) {
            let mut r = Vec::new();
            for c in 0..ch.column_count() {
                r.push(ch.column(c).and_then(|col| col.get_value(idx)).unwrap_or(Value::Null));
            }
            rows.push(r);
        }
    }
    let mut out: Vec<String> = match &sc.chain {
        Chain::Passthrough | Chain::Filter(_) | Chain::Sort => rows.iter().map(|r| rowkey(&r[0], r.get(1).unwrap_or(&Value::Null))).collect(),
        Chain::Distinct | Chain::FilterDistinct(_) => {
            // union of the workers' distinct sets
            let mut v: Vec<String> = rows.iter().map(|r| rowkey(&r[0], r.get(1).unwrap_or(&Value::Null))).collect();
            v.sort();
            v.dedup();
            v
        }
        Chain::AggGlobal => {
            // columns: count(*), count(col0), sum(col0), min(col0), max(col0) per worker
            let (mut cs, mut c0, mut sum) = (0i64, 0i64, 0f64);
            let (mut mn, mut mx): (Option<i64>, Option<i64>) = (None, None);
            for r in &rows {
                if r.len() < 5 {
                    return Err(format!("aggregate row has {} columns: {r:?}", r.len()));
                }
                cs += as_i(&r[0]).unwrap_or(0);
                c0 += as_i(&r[1]).unwrap_or(0);
                sum += match &r[2] {
                    Value::Int64(i) => *i as f64,
                    Value::Float64(f) => *f,
                    _ => 0.0,
                };
                if let Some(v) = as_i(&r[3]) {
                    mn = Some(mn.map_or(v, |m| m.min(v)));
                }
                if let Some(v) = as_i(&r[4]) {
                    mx = Some(mx.map_or(v, |m| m.max(v)));
                }
            }
            vec![format!("count*={cs} count0={c0} sum={} min={:?} max={:?}", sum as i64, mn.as_ref(), mx.as_ref())]
        }
        Chain::AggGrouped => {
            // columns: group key, count(*), sum(col0)
            let mut g: BTreeMap<i64, (i64, f64)> = BTreeMap::new();
            for r in &rows {
                if r.len() < 3 {
                    return Err(format!("grouped aggregate row has {} columns: {r:?}", r.len()));
                }
                let e = g.entry(as_i(&r[0]).unwrap_or(-1)).or_insert((0, 0.0));
                e.0 += as_i(&r[1]).unwrap_or(0);
                e.1 += match &r[2] {
                    Value::Int64(i) => *i as f64,
                    Value::Float64(f) => *f,
                    _ => 0.0,
                };
            }
            g.iter().map(|(k, (c, s))| format!("g{k}: count*={c} sum={}", *s as i64)).collect()
        }
    };
    out.sort();
    Ok(out)
}

fn build(sc: &Scenario) -> ParallelPipeline {
    let (c0, c1) = table(sc);
    let source = Arc::new(ParallelVectorSource::new(vec![c0, c1]));
    let mut f = CloneableOperatorFactory::new();
    match sc.chain.clone() {
        Chain::Passthrough => {}
        Chain::Filter(c) => {
            f = f.with_operator(move || Box::new(FilterPushOperator::new(Box::new(ColumnPredicate { column: 0, op: CompareOp::Gt, value: Value::Int64(c) }))));
        }
        Chain::Sort => {
            f = f.with_operator(|| Box::new(SortPushOperator::new(vec![SortKey::ascending(0)]))).with_pipeline_breakers();
        }
        Chain::Distinct => {
            f = f.with_operator(|| Box::new(DistinctPushOperator::new())).with_pipeline_breakers();
        }
        Chain::FilterDistinct(c) => {
            f = f
                .with_operator(move || Box::new(FilterPushOperator::new(Box::new(ColumnPredicate { column: 0, op: CompareOp::Gt, value: Value::Int64(c) }))))
                .with_operator(|| Box::new(DistinctPushOperator::new()))
                .with_pipeline_breakers();
        }
        Chain::AggGlobal => {
            f = f
                .with_operator(|| Box::new(AggregatePushOperator::new(vec![], vec![AggregateExpr::count_star(), AggregateExpr::count(0), AggregateExpr::sum(0), AggregateExpr::min(0), AggregateExpr::max(0)])))
                .with_pipeline_breakers();
        }
        Chain::AggGrouped => {
            f = f.with_operator(|| Box::new(AggregatePushOperator::new(vec![1], vec![AggregateExpr::count_star(), AggregateExpr::sum(0)]))).with_pipeline_breakers();
        }
    }
    let mut cfg = ParallelPipelineConfig::default().with_workers(sc.workers).with_pressure(PressureLevel::Critical);
    cfg.chunk_size = sc.chunk_size;
    ParallelPipeline::new(source, Arc::new(f), cfg)
}

pub struct ExecOutcome {
    pub steps: Vec<usize>,
    pub crashed: Option<String>,
    pub canon: Result<Vec<String>, String>,
    pub rows_processed: usize,
    pub morsels: usize,
    pub lock_points: u64,
}

fn run_schedule(sc: &Arc<Scenario>, sched: Box<dyn Scheduler + Send>) -> ExecOutcome {
    let (rec, steps) = Recording::new(sched);
    let mut cfg = shuttle::Config::new();
    cfg.failure_persistence = shuttle::FailurePersistence::None;
    cfg.max_steps = shuttle::MaxSteps::FailAfter(2_000_000);
    cfg.silence_warnings = true;
    type Shared = Option<(Result<Vec<String>, String>, usize, usize, u64)>;
    let shared: Arc<std::sync::Mutex<Shared>> = Arc::new(std::sync::Mutex::new(None));
    let (sc2, shared2) = (sc.clone(), shared.clone());
    let r = guarded(move || {
        shuttle::Runner::new(rec, cfg).run(move || {
            let pipe = build(&sc2);
            let guard = simlock::enter();
            grafeo_common::verif::install(Some(grafeo_common::verif::Hooks {
                fs_event: None,
                clock_ns: None,
                yield_point: Some(Box::new(|_| {
                    if !std::thread::panicking() {
                        shuttle::thread::sleep(std::time::Duration::ZERO);
                    }
                })),
                run_scoped: Some(Box::new(|jobs| {
                    shuttle::thread::scope(|s| {
                        for j in jobs {
                            s.spawn(j);
                        }
                    });
                })),
            }));
            let res = pipe.execute();
            grafeo_common::verif::install(None);
            let (acq, _) = guard.stats();
            drop(guard);
            let out = match res {
                Ok(r) => (canonical(&sc2, &r.chunks), r.rows_processed, r.morsels_processed, acq),
                Err(e) => (Err(format!("execute returned Err: {e}")), 0, 0, acq),
            };
            *shared2.lock().unwrap() = Some(out);
        });
    });
    simlock::force_leave();
    grafeo_common::verif::install(None);
    let steps = steps.lock().unwrap().clone();
    match (r, shared.lock().unwrap().take()) {
        (Ok(()), Some((canon, rows_processed, morsels, lock_points))) => ExecOutcome { steps, crashed: None, canon, rows_processed, morsels, lock_points },
        (Err(msg), _) => ExecOutcome { steps, crashed: Some(msg), canon: Ok(vec![]), rows_processed: 0, morsels: 0, lock_points: 0 },
        (Ok(()), None) => ExecOutcome { steps, crashed: Some("no result".into()), canon: Ok(vec![]), rows_processed: 0, morsels: 0, lock_points: 0 },
    }
}

fn judge(sc: &Scenario, want: &[String], ex: &ExecOutcome) -> Vec<(String, String)> {
    let chain = match &sc.chain {
        Chain::Passthrough => "passthrough",
        Chain::Filter(_) => "filter",
        Chain::Sort => "sort",
        Chain::Distinct => "distinct",
        Chain::FilterDistinct(_) => "filter+distinct",
        Chain::AggGlobal => "aggregate",
        Chain::AggGrouped => "grouped-aggregate",
    };
    let mut out = Vec::new();
    if let Some(msg) = &ex.crashed {
        let class = if msg.contains("deadlock") {
            "deadlock".to_string()
        } else if msg.contains("max_steps") {
            "no-progress-within-step-bound".to_string()
        } else {
            format!("panic | {}", panic_class(msg))
        };
        out.push((format!("C17 | parallel | chain={chain} | {class}"), msg.clone()));
        return out;
    }
    match &ex.canon {
        Err(e) => out.push((format!("C17 | parallel | chain={chain} | malformed-output"), e.clone())),
        Ok(got) => {
            if got != want {
                let class = if got.len() < want.len() { "rows-lost" } else if got.len() > want.len() { "rows-duplicated" } else { "rows-differ" };
                let first = got.iter().zip(want).find(|(a, b)| a != b).map(|(a, b)| format!("{a} vs {b}")).unwrap_or_default();
                out.push((format!("C17 | parallel | chain={chain} | {class}"), format!("{} vs {} canonical entries; first difference: {first}", got.len(), want.len())));
            }
        }
    }
    if ex.rows_processed != sc.rows {
        out.push((format!("C17 | parallel | chain={chain} | rows_processed-mismatch"), format!("{} vs {}", ex.rows_processed, sc.rows)));
    }
    let expect_morsels = sc.rows.div_ceil(1024);
    if ex.morsels != expect_morsels {
        out.push((format!("C17 | parallel | chain={chain} | morsel-count-mismatch"), format!("{} vs {}", ex.morsels, expect_morsels)));
    }
    out
}

pub fn generate(rng: &mut Prng) -> Scenario {
    let rows = *rng.pick(&[0usize, 1, 1023, 1024, 1025, 2048, 3000, 4097]);
    let chain = match rng.below(8) {
        0 => Chain::Passthrough,
        1 | 2 => Chain::Filter(rng.below(4) as i64 - 2),
        3 => Chain::Sort,
        4 => Chain::Distinct,
        5 => Chain::FilterDistinct(rng.below(4) as i64 - 2),
        6 => Chain::AggGlobal,
        _ => Chain::AggGrouped,
    };
    Scenario {
        rows,
        workers: rng.range(1, 4) as usize,
        chunk_size: *rng.pick(&[1usize, 7, 64, 1000, 2048]),
        chain,
        dom0: *rng.pick(&[1i64, 3, 10, 1000]),
        dom1: *rng.pick(&[1i64, 2, 5]),
        null_every: *rng.pick(&[0usize, 0, 3, 10]),
        table_seed: rng.next_u64(),
    }
}

fn make_scheduler(i: usize, seed: u64) -> (Box<dyn Scheduler + Send>, &'static str) {
    match i % 3 {
        0 => (Box::new(RandomScheduler::new_from_seed(seed, 1)), "random"),
        1 => (Box::new(PctScheduler::new_from_seed(seed, 2, 1)), "pct2"),
        _ => (Box::new(PctScheduler::new_from_seed(seed, 3, 1)), "pct3"),
    }
}

pub fn replay_doc(sc: &Scenario, kind: &str, seed: u64, steps: &[usize]) -> serde_json::Value {
    json!({"engine": "PAR", "scenario": sc, "scheduler": kind, "scheduler_seed": seed, "schedule": steps, "faults": [{"preemptions": "every lock operation and hooked atomic is a scheduling point"}]})
}

pub fn run_one(seed: u64, n_sched: usize) -> RunOut {
    let mut rng = Prng::new(seed);
    let sc = generate(&mut rng);
    let want = reference(&sc);
    let sc = Arc::new(sc);
    let mut out = RunOut::default();
    let mut shapes = std::collections::BTreeSet::new();
    for i in 0..n_sched {
        let s_seed = rng.next_u64();
        let (sched, kind) = make_scheduler(i, s_seed);
        let ex = run_schedule(&sc, sched);
        out.steps += ex.steps.len() as u64;
        out.probe_n("lock_scheduling_points", ex.lock_points);
        out.fault("preemption_points");
        shapes.insert(fnv(&ex.steps.iter().map(|s| *s as u8).collect::<Vec<u8>>()));
        for (sig, detail) in judge(&sc, &want, &ex) {
            if !out.findings.iter().any(|f| f.signature == sig) {
                out.findings.push(Finding { property: "C17".into(), signature: sig, detail: format!("{:?} :: {detail}", *sc), replay: replay_doc(&sc, kind, s_seed, &ex.steps) });
            }
        }
    }
    out.hash = fnv(&serde_json::to_vec(&*sc).unwrap());
    out.shape = fnv(&shapes.iter().flat_map(|s| s.to_le_bytes()).collect::<Vec<u8>>());
    out.probe_n("distinct_schedules", shapes.len() as u64);
    if sc.rows > 1024 && sc.workers > 1 {
        out.probe("multi_morsel_multi_worker");
    }
    out.nontrivial = sc.rows > 1024 && sc.workers > 1;
    out.digest = out.hash ^ out.shape;
    out.sample = Some(json!({"seed": seed, "scenario": *sc, "schedules": n_sched, "reference_entries": want.len()}));
    out
}

pub fn replay(doc: &serde_json::Value) -> Vec<(String, String)> {
    let sc: Scenario = serde_json::from_value(doc["scenario"].clone()).unwrap();
    let steps: Vec<usize> = serde_json::from_value(doc["schedule"].clone()).unwrap_or_default();
    let want = reference(&sc);
    let sc = Arc::new(sc);
    let mut sched = ReplayScheduler::new_from_schedule(simlock::schedule_from_steps(&steps));
    sched.set_allow_incomplete();
    let ex = run_schedule(&sc, Box::new(sched));
    println!("  scenario: {:?}; schedule of {} steps", *sc, steps.len());
    judge(&sc, &want, &ex)
}
