//! SNAP — copies of a database built by a mutation history (C07): export/import, save/open,
//! to_memory, open_in_memory; byte faults (every truncation, bit flips) on the snapshot blob.

use std::collections::{BTreeMap, BTreeSet};
use std::path::PathBuf;

use grafeo_common::types::{EdgeId, NodeId, PropertyKey, Value};
use grafeo_engine::GrafeoDB;
use serde::{Deserialize, Serialize};
use serde_json::json;

use crate::fw::{Finding, RunOut, guarded, panic_class};
use crate::model_graph::{MEdge, MNode, RefGraph, SV, gen_value};
use crate::prng::{Prng, fnv};

const LABELS: [&str; 3] = ["A", "B", "C"];
const KEYS: [&str; 3] = ["k", "m", "z"];
const TYPES: [&str; 2] = ["R", "S"];

#[derive(Clone, Debug, PartialEq, Serialize, Deserialize)]
pub enum SOp {
    CreateNode(Vec<u8>),
    CreateNodeProps(Vec<u8>, Vec<(u8, SV)>),
    DeleteNode(usize),
    SetNodeProp(usize, u8, SV),
    RemoveNodeProp(usize, u8),
    AddLabel(usize, u8),
    RemoveLabel(usize, u8),
    CreateEdge(usize, usize, u8),
    CreateEdgeProps(usize, usize, u8, Vec<(u8, SV)>),
    DeleteEdge(usize),
    SetEdgeProp(usize, u8, SV),
    /// a committed session transaction: begin; INSERT (:L {k: v}); commit
    TxInsert(u8, i64),
}

#[derive(Clone, Debug, Serialize, Deserialize)]
pub enum Route {
    ExportImport,
    SaveOpen,
    ToMemory,
    SaveOpenInMemory,
}

#[derive(Clone, Debug, Serialize, Deserialize)]
pub struct Config {
    pub route: Route,
    /// byte faults on the exported blob: (flip bit indices as fractions /65536, truncate)
    pub flips: Vec<u32>,
    pub truncations: bool,
}

/// Independent mirror of the snapshot layout (bincode standard config).
#[derive(Deserialize)]
struct MirrorSnapshot {
    version: u8,
    nodes: Vec<MirrorNode>,
    edges: Vec<MirrorEdge>,
}
#[derive(Deserialize)]
struct MirrorNode {
    id: NodeId,
    #[allow(dead_code)]
    labels: Vec<String>,
    #[allow(dead_code)]
    properties: Vec<(String, Value)>,
}
#[derive(Deserialize)]
struct MirrorEdge {
    id: EdgeId,
    #[allow(dead_code)]
    src: NodeId,
    #[allow(dead_code)]
    dst: NodeId,
    #[allow(dead_code)]
    edge_type: String,
    #[allow(dead_code)]
    properties: Vec<(String, Value)>,
}

fn dump(db: &GrafeoDB, ids_n: &BTreeSet<u64>, ids_e: &BTreeSet<u64>) -> Result<RefGraph, String> {
    let mut g = RefGraph::default();
    for n in db.iter_nodes() {
        g.nodes.insert(
            n.id.as_u64(),
            MNode { labels: n.labels.iter().map(|l| l.to_string()).collect(), props: n.properties.iter().map(|(k, v)| (k.as_str().to_string(), SV::from_value(v))).collect() },
        );
    }
    for e in db.iter_edges() {
        g.edges.insert(
            e.id.as_u64(),
            MEdge { src: e.src.as_u64(), dst: e.dst.as_u64(), ty: e.edge_type.to_string(), props: e.properties.iter().map(|(k, v)| (k.as_str().to_string(), SV::from_value(v))).collect() },
        );
    }
    // point lookups must agree with the iteration
    for id in ids_n.iter().chain(g.nodes.keys()) {
        if db.get_node(NodeId::new(*id)).is_some() != g.nodes.contains_key(id) {
            return Err(format!("get_node({id}) disagrees with iteration"));
        }
    }
    for id in ids_e.iter().chain(g.edges.keys()) {
        if db.get_edge(EdgeId::new(*id)).is_some() != g.edges.contains_key(id) {
            return Err(format!("get_edge({id}) disagrees with iteration"));
        }
    }
    Ok(g)
}

/// Answers of a few fixed queries, canonical.
fn queries(db: &GrafeoDB) -> Vec<String> {
    let s = db.session();
    let mut out = Vec::new();
    for q in ["MATCH (n) RETURN count(n)", "MATCH (n:A) RETURN id(n)", "MATCH (n:B) RETURN id(n)", "MATCH (a)-[r]->(b) RETURN id(a), id(r), id(b)"] {
        match s.execute(q) {
            Ok(r) => {
                let mut rows: Vec<String> = r.rows.iter().map(|row| format!("{row:?}")).collect();
                rows.sort();
                out.push(format!("{q} => {rows:?}"));
            }
            Err(e) => out.push(format!("{q} => err {e}")),
        }
    }
    out
}

pub struct ExecResult {
    pub findings: Vec<(String, String)>,
    pub probes: BTreeMap<&'static str, u64>,
    pub faults: BTreeMap<&'static str, u64>,
    pub steps_done: usize,
    pub nontrivial: bool,
    pub digest: u64,
}

pub fn exec(cfg: &Config, ops: &[SOp], tag: &str) -> ExecResult {
    let mut findings: Vec<(String, String)> = Vec::new();
    let mut probes: BTreeMap<&'static str, u64> = BTreeMap::new();
    let mut faults: BTreeMap<&'static str, u64> = BTreeMap::new();
    let db = GrafeoDB::new_in_memory();
    let mut m = RefGraph::default();
    let (mut ns, mut es): (Vec<u64>, Vec<u64>) = (Vec::new(), Vec::new());
    let mut tx_used = false;
    let lab = |ls: &[u8]| -> Vec<&'static str> {
        let mut v: Vec<&'static str> = Vec::new();
        for l in ls {
            let s = LABELS[*l as usize % 3];
            if !v.contains(&s) {
                v.push(s);
            }
        }
        v
    };
    for op in ops {
        match op {
            SOp::CreateNode(ls) => {
                let ls = lab(ls);
                let id = db.create_node(&ls).as_u64();
                ns.push(id);
                m.nodes.insert(id, MNode { labels: ls.iter().map(|s| s.to_string()).collect(), props: BTreeMap::new() });
            }
            SOp::CreateNodeProps(ls, ps) => {
                let ls = lab(ls);
                let props: Vec<(PropertyKey, Value)> = ps.iter().map(|(k, v)| (PropertyKey::new(KEYS[*k as usize % 3]), v.to_value())).collect();
                let id = db.create_node_with_props(&ls, props).as_u64();
                ns.push(id);
                let mut mp = BTreeMap::new();
                for (k, v) in ps {
                    mp.insert(KEYS[*k as usize % 3].to_string(), v.clone());
                }
                m.nodes.insert(id, MNode { labels: ls.iter().map(|s| s.to_string()).collect(), props: mp });
            }
            SOp::DeleteNode(s) => {
                if let Some(&id) = ns.get(*s) {
                    // only nodes without edges (plain delete leaves dangling edges)
                    if m.nodes.contains_key(&id) && m.incident_edges(id).is_empty() {
                        db.delete_node(NodeId::new(id));
                        m.nodes.remove(&id);
                    }
                }
            }
            SOp::SetNodeProp(s, k, v) => {
                if let Some(&id) = ns.get(*s) {
                    if let Some(n) = m.nodes.get_mut(&id) {
                        db.set_node_property(NodeId::new(id), KEYS[*k as usize % 3], v.to_value());
                        n.props.insert(KEYS[*k as usize % 3].to_string(), v.clone());
                    }
                }
            }
            SOp::RemoveNodeProp(s, k) => {
                if let Some(&id) = ns.get(*s) {
                    if let Some(n) = m.nodes.get_mut(&id) {
                        db.remove_node_property(NodeId::new(id), KEYS[*k as usize % 3]);
                        n.props.remove(KEYS[*k as usize % 3]);
                    }
                }
            }
            SOp::AddLabel(s, l) => {
                if let Some(&id) = ns.get(*s) {
                    if let Some(n) = m.nodes.get_mut(&id) {
                        db.add_node_label(NodeId::new(id), LABELS[*l as usize % 3]);
                        n.labels.insert(LABELS[*l as usize % 3].to_string());
                    }
                }
            }
            SOp::RemoveLabel(s, l) => {
                if let Some(&id) = ns.get(*s) {
                    if let Some(n) = m.nodes.get_mut(&id) {
                        db.remove_node_label(NodeId::new(id), LABELS[*l as usize % 3]);
                        n.labels.remove(LABELS[*l as usize % 3]);
                    }
                }
            }
            SOp::CreateEdge(a, b, t) | SOp::CreateEdgeProps(a, b, t, _) => {
                if let (Some(&src), Some(&dst)) = (ns.get(*a), ns.get(*b)) {
                    if m.nodes.contains_key(&src) && m.nodes.contains_key(&dst) {
                        let ty = TYPES[*t as usize % 2];
                        let mut mp = BTreeMap::new();
                        let id = if let SOp::CreateEdgeProps(_, _, _, ps) = op {
                            let props: Vec<(PropertyKey, Value)> = ps.iter().map(|(k, v)| (PropertyKey::new(KEYS[*k as usize % 3]), v.to_value())).collect();
                            for (k, v) in ps {
                                mp.insert(KEYS[*k as usize % 3].to_string(), v.clone());
                            }
                            db.create_edge_with_props(NodeId::new(src), NodeId::new(dst), ty, props).as_u64()
                        } else {
                            db.create_edge(NodeId::new(src), NodeId::new(dst), ty).as_u64()
                        };
                        es.push(id);
                        m.edges.insert(id, MEdge { src, dst, ty: ty.to_string(), props: mp });
                    }
                }
            }
            SOp::DeleteEdge(s) => {
                if let Some(&id) = es.get(*s) {
                    if m.edges.remove(&id).is_some() {
                        db.delete_edge(EdgeId::new(id));
                    }
                }
            }
            SOp::SetEdgeProp(s, k, v) => {
                if let Some(&id) = es.get(*s) {
                    if let Some(e) = m.edges.get_mut(&id) {
                        db.set_edge_property(EdgeId::new(id), KEYS[*k as usize % 3], v.to_value());
                        e.props.insert(KEYS[*k as usize % 3].to_string(), v.clone());
                    }
                }
            }
            SOp::TxInsert(l, v) => {
                let mut s = db.session();
                let label = LABELS[*l as usize % 3];
                let r = (|| -> Result<u64, String> {
                    s.begin_tx().map_err(|e| e.to_string())?;
                    let r = s.execute(&format!("INSERT (:{label} {{k: {v}}})")).map_err(|e| e.to_string())?;
                    s.commit().map_err(|e| e.to_string())?;
                    match r.rows.first().and_then(|x| x.first()) {
                        Some(Value::Int64(i)) => Ok(*i as u64),
                        o => Err(format!("{o:?}")),
                    }
                })();
                if let Ok(id) = r {
                    ns.push(id);
                    let mut mp = BTreeMap::new();
                    mp.insert("k".to_string(), SV::Int(*v));
                    m.nodes.insert(id, MNode { labels: [label.to_string()].into_iter().collect(), props: mp });
                    tx_used = true;
                }
            }
        }
    }
    let ids_n: BTreeSet<u64> = ns.iter().copied().collect();
    let ids_e: BTreeSet<u64> = es.iter().copied().collect();
    let ctx = if tx_used { "after-committed-session-transactions" } else { "direct-api-only" };
    let route = format!("{:?}", cfg.route);
    let before = dump(&db, &ids_n, &ids_e);
    let q_before = queries(&db);
    let root = PathBuf::from(format!("/dev/shm/grafeo-sim/{}/snap-{tag}", std::process::id()));
    let _ = std::fs::remove_dir_all(&root);
    let copy: Result<GrafeoDB, String> = match guarded(|| -> Result<GrafeoDB, String> {
        match cfg.route {
            Route::ExportImport => {
                let blob = db.export_snapshot().map_err(|e| e.to_string())?;
                GrafeoDB::import_snapshot(&blob).map_err(|e| e.to_string())
            }
            Route::ToMemory => db.to_memory().map_err(|e| e.to_string()),
            Route::SaveOpen => {
                db.save(&root).map_err(|e| e.to_string())?;
                GrafeoDB::open(&root).map_err(|e| e.to_string())
            }
            Route::SaveOpenInMemory => {
                db.save(&root).map_err(|e| e.to_string())?;
                GrafeoDB::open_in_memory(&root).map_err(|e| e.to_string())
            }
        }
    }) {
        Ok(r) => r,
        Err(p) => Err(format!("panic: {p}")),
    };
    let mut digest = fnv(route.as_bytes()) ^ (m.nodes.len() as u64) << 8 ^ m.edges.len() as u64;
    match copy {
        Err(e) => findings.push((format!("C07 | route={route} | copy-failed | {ctx}"), e)),
        Ok(c) => {
            match dump(&c, &ids_n, &ids_e) {
                Err(e) => findings.push((format!("C07 | route={route} | copy-access-paths-disagree | {ctx}"), e)),
                Ok(g) => {
                    if !g.same_graph(&m) {
                        let missing = m.nodes.keys().filter(|k| !g.nodes.contains_key(k)).count() + m.edges.keys().filter(|k| !g.edges.contains_key(k)).count();
                        let extra = g.nodes.keys().filter(|k| !m.nodes.contains_key(k)).count() + g.edges.keys().filter(|k| !m.edges.contains_key(k)).count();
                        let class = if missing > 0 && extra == 0 { "entities-missing" } else if extra > 0 { "extra-entities" } else { "content-differs" };
                        findings.push((format!("C07 | route={route} | copy-differs-from-graph | {class} | {ctx}"), format!("copy has {} nodes / {} edges, graph has {} / {}", g.nodes.len(), g.edges.len(), m.nodes.len(), m.edges.len())));
                    } else {
                        *probes.entry("copy_equal").or_insert(0) += 1;
                        // same answers to the fixed queries (only judged when the source
                        // itself answers like the model, i.e. no session-epoch artefacts)
                        if !tx_used && queries(&c) != q_before {
                            findings.push((format!("C07 | route={route} | query-answers-differ | {ctx}"), format!("{:?} vs {:?}", queries(&c), q_before)));
                        }
                    }
                }
            }
            let _ = guarded(|| drop(c));
        }
    }
    // the source is unchanged
    match (before, dump(&db, &ids_n, &ids_e)) {
        (Ok(a), Ok(b)) => {
            if !a.same_graph(&b) {
                findings.push((format!("C07 | route={route} | source-changed-by-copy"), "dump of the source differs before/after".into()));
            }
        }
        _ => {}
    }
    // export is deterministic + byte faults
    if let (Ok(b1), Ok(b2)) = (db.export_snapshot(), db.export_snapshot()) {
        if b1 != b2 {
            findings.push(("C07 | export-not-deterministic".to_string(), format!("{} vs {} bytes", b1.len(), b2.len())));
        }
        digest ^= fnv(&b1);
        let mut variants: Vec<(String, Vec<u8>)> = Vec::new();
        if cfg.truncations {
            for len in 0..b1.len() {
                variants.push((format!("truncate:{len}"), b1[..len].to_vec()));
            }
            *faults.entry("truncation").or_insert(0) += b1.len() as u64;
        }
        for f in &cfg.flips {
            if b1.is_empty() {
                break;
            }
            let bit = (*f as usize) % (b1.len() * 8);
            let mut x = b1.clone();
            x[bit / 8] ^= 1 << (bit % 8);
            variants.push((format!("bitflip:{bit}"), x));
            *faults.entry("bitflip").or_insert(0) += 1;
        }
        for (what, bytes) in variants {
            let mirror: Result<(MirrorSnapshot, usize), String> = match guarded(|| bincode::serde::decode_from_slice::<MirrorSnapshot, _>(&bytes, bincode::config::standard())) {
                Ok(Ok(x)) => Ok(x),
                Ok(Err(e)) => Err(e.to_string()),
                Err(p) => Err(format!("decoder panicked: {p}")),
            };
            let fault = what.split(':').next().unwrap_or("").to_string();
            match guarded(|| GrafeoDB::import_snapshot(&bytes).map(|d| (d.node_count(), d.edge_count())).map_err(|e| e.to_string())) {
                Err(p) => {
                    findings.push((format!("C07 | import | fault={fault} | panic | {}", panic_class(&p)), format!("{what}: {p}")));
                }
                Ok(Ok((nn, ne))) => match &mirror {
                    Ok((ms, _)) if ms.version == 1 => {
                        let dn: BTreeSet<u64> = ms.nodes.iter().map(|n| n.id.as_u64()).collect();
                        let de: BTreeSet<u64> = ms.edges.iter().map(|e| e.id.as_u64()).collect();
                        if nn != dn.len() || ne != de.len() {
                            findings.push((format!("C07 | import | fault={fault} | partially-filled-database"), format!("{what}: imported {nn}/{ne}, the bytes decode to {}/{}", dn.len(), de.len())));
                        } else {
                            *probes.entry("damaged_blob_still_a_valid_snapshot").or_insert(0) += 1;
                        }
                    }
                    _ => findings.push((format!("C07 | import | fault={fault} | invalid-bytes-accepted"), format!("{what}: import returned a database with {nn}/{ne} but the bytes do not decode as a version-1 snapshot"))),
                },
                Ok(Err(_)) => {
                    if matches!(&mirror, Ok((ms, _)) if ms.version == 1) {
                        findings.push((format!("C07 | import | fault={fault} | valid-bytes-rejected"), what.clone()));
                    } else {
                        *probes.entry("damaged_blob_rejected").or_insert(0) += 1;
                    }
                }
            }
        }
    }
    let _ = std::fs::remove_dir_all(&root);
    let mut dedup: Vec<(String, String)> = Vec::new();
    for f in findings {
        if !dedup.iter().any(|(s, _)| *s == f.0) {
            dedup.push(f);
        }
    }
    ExecResult { findings: dedup, probes, faults, steps_done: ops.len(), nontrivial: !m.nodes.is_empty(), digest }
}

pub fn generate(rng: &mut Prng, thorough: bool) -> (Config, Vec<SOp>) {
    let route = match rng.below(4) {
        0 => Route::ExportImport,
        1 => Route::SaveOpen,
        2 => Route::ToMemory,
        _ => Route::SaveOpenInMemory,
    };
    let exotic = rng.chance(1, 2);
    let tx_on = rng.chance(1, 5);
    let len = rng.range(1, if thorough { 40 } else { 20 }) as usize;
    let (mut nn, mut ne, mut u) = (0usize, 0usize, 0u64);
    let mut ops = Vec::new();
    while ops.len() < len {
        u += 1;
        let props = |rng: &mut Prng, u: u64| -> Vec<(u8, SV)> { (0..rng.range(0, 3)).map(|i| (rng.below(3) as u8, gen_value(rng, u * 4 + i, exotic))).collect() };
        let op = match rng.below(16) {
            0 | 1 => {
                nn += 1;
                SOp::CreateNode((0..rng.range(0, 3)).map(|_| rng.below(3) as u8).collect())
            }
            2 | 3 => {
                nn += 1;
                SOp::CreateNodeProps((0..rng.range(0, 2)).map(|_| rng.below(3) as u8).collect(), props(rng, u))
            }
            4 if nn > 0 => SOp::DeleteNode(rng.usize(nn)),
            5 | 6 if nn > 0 => SOp::SetNodeProp(rng.usize(nn), rng.below(3) as u8, gen_value(rng, u * 4, exotic)),
            7 if nn > 0 => SOp::RemoveNodeProp(rng.usize(nn), rng.below(3) as u8),
            8 if nn > 0 => SOp::AddLabel(rng.usize(nn), rng.below(3) as u8),
            9 if nn > 0 => SOp::RemoveLabel(rng.usize(nn), rng.below(3) as u8),
            10 | 11 if nn > 0 => {
                ne += 1;
                SOp::CreateEdge(rng.usize(nn), rng.usize(nn), rng.below(2) as u8)
            }
            12 if nn > 0 => {
                ne += 1;
                SOp::CreateEdgeProps(rng.usize(nn), rng.usize(nn), rng.below(2) as u8, props(rng, u))
            }
            13 if ne > 0 => SOp::DeleteEdge(rng.usize(ne)),
            14 if ne > 0 => SOp::SetEdgeProp(rng.usize(ne), rng.below(3) as u8, gen_value(rng, u * 4, exotic)),
            15 if tx_on => {
                nn += 1;
                SOp::TxInsert(rng.below(3) as u8, u as i64)
            }
            _ => continue,
        };
        ops.push(op);
    }
    let flips: Vec<u32> = (0..rng.range(0, if thorough { 60 } else { 24 })).map(|_| rng.next_u64() as u32).collect();
    let truncations = rng.chance(1, 3);
    // a few copies carry a long string value (5 kB / 70 kB): length prefixes beyond one and two bytes
    if !truncations && nn > 0 && rng.chance(1, 25) {
        ops.push(SOp::SetNodeProp(rng.usize(nn), rng.below(3) as u8, SV::BigStr(*rng.pick(&[5_000u32, 70_000]), b'a' + (u % 26) as u8)));
    }
    (Config { route, flips, truncations }, ops)
}

fn run_guarded(cfg: &Config, ops: &[SOp], tag: &str) -> ExecResult {
    match guarded(|| exec(cfg, ops, tag)) {
        Ok(r) => r,
        Err(msg) => ExecResult { findings: vec![(format!("C07 | panic | {}", panic_class(&msg)), msg)], probes: BTreeMap::new(), faults: BTreeMap::new(), steps_done: 0, nontrivial: true, digest: 0 },
    }
}

pub fn replay_doc(cfg: &Config, ops: &[SOp]) -> serde_json::Value {
    json!({"engine": "SNAP", "config": cfg, "ops": ops, "schedule": null, "faults": {"bitflips": cfg.flips.len(), "all_truncations": cfg.truncations}})
}

pub fn run_one(seed: u64, idx: u64, thorough: bool) -> RunOut {
    let mut rng = Prng::new(seed);
    let (cfg, ops) = generate(&mut rng, thorough);
    let res = run_guarded(&cfg, &ops, &format!("{idx}-{seed:x}"));
    let mut out = RunOut::default();
    out.hash = fnv(&serde_json::to_vec(&(&cfg, &ops)).unwrap());
    out.shape = fnv(format!("{:?}", cfg.route).as_bytes()) ^ ops.len() as u64;
    out.nontrivial = res.nontrivial;
    out.steps = res.steps_done as u64;
    out.probes = res.probes;
    out.faults = res.faults;
    out.digest = res.digest;
    if ops.len() <= 10 {
        out.sample = Some(json!({"seed": seed, "config": cfg, "ops": ops}));
    }
    for (sig, detail) in res.findings {
        out.findings.push(Finding { property: "C07".into(), signature: sig, detail, replay: replay_doc(&cfg, &ops) });
    }
    out
}

pub fn minimise(f: &Finding) -> Finding {
    let cfg: Config = serde_json::from_value(f.replay["config"].clone()).unwrap();
    let ops: Vec<SOp> = serde_json::from_value(f.replay["ops"].clone()).unwrap();
    let sig = f.signature.clone();
    let mut fails = |cand: &[SOp]| run_guarded(&cfg, cand, "min").findings.iter().any(|(s, _)| *s == sig);
    let small = if fails(&ops) { crate::fw::ddmin(&ops, &mut fails, 300) } else { ops.clone() };
    let res = run_guarded(&cfg, &small, "min");
    let detail = res.findings.iter().find(|(s, _)| *s == sig).map(|(_, d)| d.clone()).unwrap_or_else(|| f.detail.clone());
    Finding { property: f.property.clone(), signature: sig, detail, replay: replay_doc(&cfg, &small) }
}

pub fn replay(doc: &serde_json::Value) -> Vec<(String, String)> {
    let cfg: Config = serde_json::from_value(doc["config"].clone()).unwrap();
    let ops: Vec<SOp> = serde_json::from_value(doc["ops"].clone()).unwrap();
    for (i, o) in ops.iter().enumerate() {
        println!("  {i}: {o:?}");
    }
    run_guarded(&cfg, &ops, "replay").findings
}
