//! grafeo-sim — deterministic simulation with fault injection for GrafeoDB/grafeo.
//!
//! `grafeo-sim check <property> --tier quick|thorough [--seed N] [--runs N]`
//! `grafeo-sim replay <file>`
//! `grafeo-sim digest <property> [--seed N] [--runs N]`   (determinism self-check helper)

mod checks;
mod eng_codec;
mod eng_disk;
mod eng_hist;
mod eng_par;
mod eng_rdf;
mod eng_sched;
mod eng_snap;
mod eng_spill;
mod eng_store;
mod eng_twin;
mod eng_txm;
mod eng_vec;
mod eng_vecmt;
mod fw;
mod model_graph;
mod prng;
mod simlock;
mod probe;
mod probe2;

use fw::Tier;

pub struct Args {
    pub tier: Tier,
    pub seed: u64,
    pub runs: Option<u64>,
    pub workers: usize,
}

fn parse_args(rest: &[String]) -> Args {
    let mut tier = match std::env::var("VERIF_TIER").as_deref() {
        Ok("thorough") => Tier::Thorough,
        _ => Tier::Quick,
    };
    let mut seed: u64 = std::env::var("VERIF_SEED")
        .ok()
        .and_then(|s| s.trim().parse().ok())
        .unwrap_or(1);
    let mut runs = std::env::var("VERIF_RUNS").ok().and_then(|s| s.parse().ok());
    let mut i = 0;
    while i < rest.len() {
        match rest[i].as_str() {
            "--tier" => {
                i += 1;
                tier = if rest.get(i).map(String::as_str) == Some("thorough") {
                    Tier::Thorough
                } else {
                    Tier::Quick
                };
            }
            "--seed" => {
                i += 1;
                seed = rest.get(i).and_then(|s| s.parse().ok()).unwrap_or(seed);
            }
            "--runs" => {
                i += 1;
                runs = rest.get(i).and_then(|s| s.parse().ok());
            }
            "quick" => tier = Tier::Quick,
            "thorough" => tier = Tier::Thorough,
            other => {
                eprintln!("harness error: unknown argument {other}");
                std::process::exit(2);
            }
        }
        i += 1;
    }
    Args {
        tier,
        seed,
        runs,
        workers: fw::workers_from_env(),
    }
}

fn main() {
    fw::install_panic_hook();
    let argv: Vec<String> = std::env::args().collect();
    if argv.len() >= 2 && argv[1] == "probe2" {
        std::process::exit(probe2::run());
    }
    if argv.len() >= 2 && argv[1] == "probe" {
        std::process::exit(probe::run());
    }
    if argv.len() < 3 {
        eprintln!("usage: grafeo-sim check <property> [--tier quick|thorough] [--seed N] [--runs N] | replay <file>");
        std::process::exit(2);
    }
    let code = match argv[1].as_str() {
        "check" => {
            let args = parse_args(&argv[3..]);
            println!("VERIF_SEED={} tier={} check={}", args.seed, args.tier.name(), argv[2]);
            checks::run_check(&argv[2], &args)
        }
        "replay" => checks::replay_file(&argv[2]),
        _ => {
            eprintln!("harness error: unknown sub-command {}", argv[1]);
            2
        }
    };
    std::process::exit(code);
}
