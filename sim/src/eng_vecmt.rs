//! VECMT — 2–3 simulated threads insert into, remove from and search one `HnswIndex` at the
//! same time, under shuttle with every `parking_lot` acquire/release inside `hnsw.rs` as a
//! scheduling point (thread layer of C18; "no combination of calls deadlocks or panics" of C20
//! for the vector index).
//!
//! Every id is inserted at most once and removed at most once per scenario, so presence is a
//! single window per id and the oracle needs no guessing:
//!   * a search may only return ids whose window can overlap the search call (inserted, or being
//!     inserted, before the search returned; not removed by a `remove` that had returned `true`
//!     before the search was invoked), each once, with the true distance to the id's vector,
//!     in non-decreasing order, at most k;
//!   * after the threads have finished: `len`/`contains`/`get`/`iter` describe exactly
//!     {inserted} \ {removed with result true}, a wide search returns only such ids, and it is
//!     non-empty when the index is non-empty.
//! The HNSW link structure itself is not compared with a sequential run (it legitimately depends
//! on the insertion order).

use std::collections::{BTreeMap, BTreeSet};
use std::sync::Arc;
use std::sync::atomic::{AtomicU64, Ordering};

use grafeo_common::types::NodeId;
use grafeo_core::index::vector::{DistanceMetric, HnswConfig, HnswIndex};
use serde::{Deserialize, Serialize};
use serde_json::json;
use shuttle::scheduler::{PctScheduler, RandomScheduler, ReplayScheduler, Scheduler};

use crate::fw::{Finding, RunOut, guarded, panic_class};
use crate::prng::{Prng, fnv};
use crate::simlock::{self, Recording};

#[derive(Clone, Debug, PartialEq, Serialize, Deserialize)]
pub enum MOp {
    Insert(u64),
    Remove(u64),
    /// query point index, k, ef
    Search(u8, usize, usize),
}

#[derive(Clone, Debug, Serialize, Deserialize)]
pub struct Scenario {
    pub m: usize,
    pub ef_construction: usize,
    pub index_seed: u64,
    /// ids 0..pre are inserted before the threads start
    pub pre: u64,
    pub threads: Vec<Vec<MOp>>,
}

/// The vector of an id: a fixed function of the id (2 dimensions, small integers, some equal).
fn vec_of(id: u64) -> [f32; 2] {
    let x = (id * 7 + 3) % 5;
    let y = (id * 3 + 1) % 4;
    [x as f32, y as f32]
}

fn query_of(q: u8) -> [f32; 2] {
    [f32::from(q % 5) + 0.5, f32::from(q % 3)]
}

fn dist(a: &[f32; 2], b: &[f32]) -> f32 {
    let (dx, dy) = (f64::from(a[0]) - f64::from(b[0]), f64::from(a[1]) - f64::from(b[1]));
    (dx * dx + dy * dy).sqrt() as f32
}

#[derive(Clone, Debug)]
struct Call {
    op: MOp,
    inv: u64,
    ret: u64,
    /// remove → "true"/"false"; search → ids and distances
    removed: Option<bool>,
    hits: Vec<(u64, f32)>,
}

pub struct ExecOutcome {
    pub steps: Vec<usize>,
    pub crashed: Option<String>,
    calls: Vec<Call>,
    /// post-quiescence observations
    final_len: usize,
    final_ids: BTreeSet<u64>,
    final_vec_wrong: Vec<u64>,
    final_contains_wrong: Vec<u64>,
    wide: Vec<(u64, f32)>,
    pub lock_points: u64,
}

fn universe(sc: &Scenario) -> BTreeSet<u64> {
    let mut u: BTreeSet<u64> = (0..sc.pre).collect();
    for t in &sc.threads {
        for op in t {
            if let MOp::Insert(id) | MOp::Remove(id) = op {
                u.insert(*id);
            }
        }
    }
    u
}

fn run_schedule(sc: &Arc<Scenario>, sched: Box<dyn Scheduler + Send>) -> ExecOutcome {
    let (rec, steps) = Recording::new(sched);
    let mut cfg = shuttle::Config::new();
    cfg.failure_persistence = shuttle::FailurePersistence::None;
    cfg.max_steps = shuttle::MaxSteps::FailAfter(80_000);
    cfg.silence_warnings = true;
    type Shared = (Vec<Call>, usize, BTreeSet<u64>, Vec<u64>, Vec<u64>, Vec<(u64, f32)>, u64);
    let shared: Arc<std::sync::Mutex<Option<Shared>>> = Arc::new(std::sync::Mutex::new(None));
    let (sc2, shared2) = (sc.clone(), shared.clone());
    let r = guarded(move || {
        let runner = shuttle::Runner::new(rec, cfg);
        runner.run(move || {
            let config = HnswConfig { m: sc2.m, ef_construction: sc2.ef_construction, ef: 16, ..HnswConfig::new(2, DistanceMetric::Euclidean) };
            let index = Arc::new(HnswIndex::with_seed(config, sc2.index_seed));
            for id in 0..sc2.pre {
                index.insert(NodeId::new(id), &vec_of(id));
            }
            let clock = Arc::new(AtomicU64::new(1));
            let calls: Arc<std::sync::Mutex<Vec<Call>>> = Arc::new(std::sync::Mutex::new(Vec::new()));
            let guard = simlock::enter();
            grafeo_common::verif::install(Some(grafeo_common::verif::Hooks {
                fs_event: None,
                clock_ns: None,
                yield_point: Some(Box::new(|_name| {
                    if !std::thread::panicking() {
                        shuttle::thread::sleep(std::time::Duration::ZERO);
                    }
                })),
                run_scoped: None,
            }));
            let mut handles = Vec::new();
            for ops in sc2.threads.iter() {
                let (index, clock, calls, ops) = (index.clone(), clock.clone(), calls.clone(), ops.clone());
                handles.push(shuttle::thread::spawn(move || {
                    for op in &ops {
                        let inv = clock.fetch_add(1, Ordering::SeqCst);
                        let mut call = Call { op: op.clone(), inv, ret: 0, removed: None, hits: vec![] };
                        match op {
                            MOp::Insert(id) => index.insert(NodeId::new(*id), &vec_of(*id)),
                            MOp::Remove(id) => call.removed = Some(index.remove(NodeId::new(*id))),
                            MOp::Search(q, k, ef) => call.hits = index.search_with_ef(&query_of(*q), *k, *ef).into_iter().map(|(n, d)| (n.as_u64(), d)).collect(),
                        }
                        call.ret = clock.fetch_add(1, Ordering::SeqCst);
                        calls.lock().unwrap().push(call);
                    }
                }));
            }
            for h in handles {
                h.join().unwrap();
            }
            let (acq, _) = guard.stats();
            grafeo_common::verif::install(None);
            drop(guard);
            let uni = universe(&sc2);
            let final_ids: BTreeSet<u64> = index.iter().map(|(n, _)| n.as_u64()).collect();
            let mut vec_wrong = Vec::new();
            let mut contains_wrong = Vec::new();
            for id in &uni {
                let c = index.contains(NodeId::new(*id));
                if c != final_ids.contains(id) {
                    contains_wrong.push(*id);
                }
                match index.get(NodeId::new(*id)) {
                    Some(v) => {
                        if !c || v.as_ref() != vec_of(*id).as_slice() {
                            vec_wrong.push(*id);
                        }
                    }
                    None => {
                        if c {
                            vec_wrong.push(*id);
                        }
                    }
                }
            }
            let wide: Vec<(u64, f32)> = index.search_with_ef(&query_of(1), 64, 256).into_iter().map(|(n, d)| (n.as_u64(), d)).collect();
            *shared2.lock().unwrap() = Some((calls.lock().unwrap().clone(), index.len(), final_ids, vec_wrong, contains_wrong, wide, acq));
        });
    });
    simlock::force_leave();
    grafeo_common::verif::install(None);
    let steps = steps.lock().unwrap().clone();
    match (r, shared.lock().unwrap().take()) {
        (Ok(()), Some((calls, final_len, final_ids, final_vec_wrong, final_contains_wrong, wide, lock_points))) => ExecOutcome { steps, crashed: None, calls, final_len, final_ids, final_vec_wrong, final_contains_wrong, wide, lock_points },
        (Err(msg), _) => ExecOutcome { steps, crashed: Some(msg), calls: vec![], final_len: 0, final_ids: BTreeSet::new(), final_vec_wrong: vec![], final_contains_wrong: vec![], wide: vec![], lock_points: 0 },
        (Ok(()), None) => ExecOutcome { steps, crashed: Some("execution ended without a result".into()), calls: vec![], final_len: 0, final_ids: BTreeSet::new(), final_vec_wrong: vec![], final_contains_wrong: vec![], wide: vec![], lock_points: 0 },
    }
}

fn check_hits(label: &str, hits: &[(u64, f32)], q: &[f32; 2], k: usize, may_hold: &dyn Fn(u64) -> bool, out: &mut Vec<(String, String)>, prop: &str) {
    if hits.len() > k {
        out.push((format!("{prop} | hnsw-threads | {label} | more-than-k-results"), format!("{} results for k={k}: {hits:?}", hits.len())));
    }
    let mut seen = BTreeSet::new();
    for (id, d) in hits {
        if !seen.insert(*id) {
            out.push((format!("{prop} | hnsw-threads | {label} | duplicate-id"), format!("{hits:?}")));
        }
        if !may_hold(*id) {
            out.push((format!("{prop} | hnsw-threads | {label} | id-not-in-index"), format!("id {id} in {hits:?}")));
        }
        let want = dist(q, &vec_of(*id));
        if (want - *d).abs() > 1e-4 * want.abs().max(1.0) {
            out.push((format!("{prop} | hnsw-threads | {label} | wrong-distance"), format!("id {id}: reported {d}, true {want}")));
        }
    }
    if hits.windows(2).any(|w| w[0].1 > w[1].1) {
        out.push((format!("{prop} | hnsw-threads | {label} | not-sorted"), format!("{hits:?}")));
    }
}

fn judge(sc: &Scenario, ex: &ExecOutcome, prop: &str) -> Vec<(String, String)> {
    let mut out = Vec::new();
    if let Some(msg) = &ex.crashed {
        let class = if msg.contains("deadlock") {
            "deadlock".to_string()
        } else if msg.contains("exceeded max_steps") {
            "no-progress-within-step-bound".to_string()
        } else {
            format!("panic | {}", panic_class(msg))
        };
        out.push((format!("{prop} | hnsw-threads | {class}"), msg.chars().take(400).collect()));
        return out;
    }
    // presence window per id
    let mut ins: BTreeMap<u64, (u64, u64)> = BTreeMap::new(); // id → (inv, ret); pre-inserted = (0, 0)
    for id in 0..sc.pre {
        ins.insert(id, (0, 0));
    }
    let mut rem_true: BTreeMap<u64, (u64, u64)> = BTreeMap::new();
    for c in &ex.calls {
        match &c.op {
            MOp::Insert(id) => {
                ins.insert(*id, (c.inv, c.ret));
            }
            MOp::Remove(id) => {
                if c.removed == Some(true) {
                    rem_true.insert(*id, (c.inv, c.ret));
                }
            }
            MOp::Search(..) => {}
        }
    }
    // a remove that returned true needs an insert that was at least invoked before it returned
    for (id, (_, rret)) in &rem_true {
        if ins.get(id).is_none_or(|(iinv, _)| iinv > rret) {
            out.push((format!("{prop} | hnsw-threads | remove-returned-true-for-an-id-never-inserted"), format!("id {id}")));
        }
    }
    // a remove that returned false although the insert had completed before it was invoked
    for c in &ex.calls {
        if let (MOp::Remove(id), Some(false)) = (&c.op, c.removed) {
            if let Some((_, iret)) = ins.get(id) {
                let inserted_before = *iret < c.inv && (*iret > 0 || *id < sc.pre);
                if inserted_before {
                    out.push((format!("{prop} | hnsw-threads | remove-returned-false-for-a-present-id"), format!("id {id}")));
                }
            }
        }
    }
    for c in &ex.calls {
        if let MOp::Search(q, k, _) = &c.op {
            let may_hold = |id: u64| -> bool {
                let Some((iinv, _)) = ins.get(&id) else { return false };
                if *iinv > c.ret {
                    return false;
                }
                !rem_true.get(&id).is_some_and(|(_, rret)| *rret < c.inv)
            };
            check_hits("search-during", &c.hits, &query_of(*q), *k, &may_hold, &mut out, prop);
        }
    }
    // after the threads have finished
    let expected: BTreeSet<u64> = ins.keys().copied().filter(|id| !rem_true.contains_key(id)).collect();
    if ex.final_ids != expected {
        out.push((format!("{prop} | hnsw-threads | after-join | ids-differ-from-inserted-minus-removed"), format!("index holds {:?}, expected {:?}", ex.final_ids, expected)));
    }
    if ex.final_len != ex.final_ids.len() {
        out.push((format!("{prop} | hnsw-threads | after-join | len-vs-iter"), format!("len() {} vs {} ids", ex.final_len, ex.final_ids.len())));
    }
    if !ex.final_contains_wrong.is_empty() {
        out.push((format!("{prop} | hnsw-threads | after-join | contains-vs-iter"), format!("{:?}", ex.final_contains_wrong)));
    }
    if !ex.final_vec_wrong.is_empty() {
        out.push((format!("{prop} | hnsw-threads | after-join | get-returns-wrong-vector"), format!("{:?}", ex.final_vec_wrong)));
    }
    let fin = ex.final_ids.clone();
    check_hits("search-after-join", &ex.wide, &query_of(1), 64, &|id| fin.contains(&id), &mut out, prop);
    if ex.wide.is_empty() && !ex.final_ids.is_empty() {
        out.push((format!("{prop} | hnsw-threads | search-after-join | empty-result-on-non-empty-index"), format!("index holds {:?}", ex.final_ids)));
    }
    out.sort();
    out.dedup_by(|a, b| a.0 == b.0);
    out
}

pub fn generate(rng: &mut Prng) -> Scenario {
    let n_threads = if rng.chance(1, 3) { 3 } else { 2 };
    let pre = rng.range(0, 4);
    let mut next_new = pre;
    let mut removable: Vec<u64> = (0..pre).collect();
    let mut threads = Vec::new();
    let mut planned: Vec<Vec<u8>> = Vec::new();
    for _ in 0..n_threads {
        let n = rng.range(1, if n_threads == 3 { 2 } else { 3 }) as usize;
        planned.push((0..n).map(|_| rng.below(10) as u8).collect());
    }
    // ids inserted by the scenario can be removed by another thread (or later by the same one)
    for plan in &planned {
        let mut ops = Vec::new();
        for p in plan {
            let op = match p {
                0..=3 => {
                    let id = next_new;
                    next_new += 1;
                    removable.push(id);
                    MOp::Insert(id)
                }
                4..=6 if !removable.is_empty() => {
                    let i = rng.usize(removable.len());
                    MOp::Remove(removable.swap_remove(i))
                }
                _ => MOp::Search(rng.below(6) as u8, *rng.pick(&[1usize, 2, 3, 8]), *rng.pick(&[1usize, 2, 4, 16, 64])),
            };
            ops.push(op);
        }
        threads.push(ops);
    }
    Scenario { m: *rng.pick(&[2usize, 3, 4, 16]), ef_construction: *rng.pick(&[1usize, 4, 16, 64]), index_seed: rng.next_u64(), pre, threads }
}

#[derive(Clone, Copy, Debug, PartialEq, Eq, Serialize, Deserialize)]
pub enum SchedKind {
    Random,
    Pct(usize),
}

fn make_scheduler(kind: SchedKind, seed: u64) -> Box<dyn Scheduler + Send> {
    match kind {
        SchedKind::Random => Box::new(RandomScheduler::new_from_seed(seed, 1)),
        SchedKind::Pct(d) => Box::new(PctScheduler::new_from_seed(seed, d, 1)),
    }
}

pub fn replay_doc(sc: &Scenario, kind: SchedKind, sched_seed: u64, steps: &[usize]) -> serde_json::Value {
    json!({"engine": "VECMT", "scenario": sc, "scheduler": kind, "scheduler_seed": sched_seed,
           "schedule": steps, "faults": [{"preemptions": "every lock acquire/release inside hnsw.rs is a scheduling point; the schedule lists the task chosen at each point"}]})
}

type Found = (String, String, SchedKind, u64, Vec<usize>);

fn explore(sc: &Arc<Scenario>, rng: &mut Prng, prop: &str, n_sched: usize, out: &mut RunOut, shapes: &mut BTreeSet<u64>) -> Vec<Found> {
    let mut found: Vec<Found> = Vec::new();
    for i in 0..n_sched {
        let kind = match i % 3 {
            0 => SchedKind::Random,
            1 => SchedKind::Pct(2),
            _ => SchedKind::Pct(3),
        };
        let s_seed = rng.next_u64();
        let ex = run_schedule(sc, make_scheduler(kind, s_seed));
        out.steps += ex.steps.len() as u64;
        out.probe_n("lock_scheduling_points", ex.lock_points);
        out.fault("preemption_points");
        if ex.calls.iter().any(|c| matches!(c.op, MOp::Search(..)) && !c.hits.is_empty()) {
            out.probe("hnsw_search_overlapping_writers_returned_results");
        }
        shapes.insert(fnv(&ex.steps.iter().map(|s| *s as u8).collect::<Vec<u8>>()));
        for (sig, detail) in judge(sc, &ex, prop) {
            if !found.iter().any(|f| f.0 == sig) {
                found.push((sig, detail, kind, s_seed, ex.steps.clone()));
            }
        }
    }
    found
}

pub fn run_one(seed: u64, prop: &'static str, n_sched: usize) -> RunOut {
    let mut rng = Prng::new(seed);
    let sc = Arc::new(generate(&mut rng));
    let mut out = RunOut::default();
    let mut shapes = BTreeSet::new();
    let found = explore(&sc, &mut rng, prop, n_sched, &mut out, &mut shapes);
    out.hash = fnv(&serde_json::to_vec(&*sc).unwrap());
    out.shape = fnv(&shapes.iter().flat_map(|s| s.to_le_bytes()).collect::<Vec<u8>>());
    out.probe_n("distinct_schedules", shapes.len() as u64);
    let writers = sc.threads.iter().filter(|t| t.iter().any(|o| !matches!(o, MOp::Search(..)))).count();
    out.nontrivial = writers >= 1 && sc.threads.len() >= 2;
    out.digest = out.hash ^ out.shape;
    out.sample = Some(json!({"seed": seed, "scenario": *sc, "schedules_explored": n_sched}));
    for (sig, detail, kind, s_seed, steps) in found {
        out.findings.push(Finding { property: prop.to_string(), signature: sig, detail: format!("threads: {:?} :: {detail}", sc.threads), replay: replay_doc(&sc, kind, s_seed, &steps) });
    }
    out
}

/// Drops operations while some schedule (bounded search) still shows the same signature.
pub fn minimise(f: &Finding) -> Finding {
    let sc: Scenario = serde_json::from_value(f.replay["scenario"].clone()).unwrap();
    let kind: SchedKind = serde_json::from_value(f.replay["scheduler"].clone()).unwrap_or(SchedKind::Random);
    let s_seed = f.replay["scheduler_seed"].as_u64().unwrap_or(0);
    let steps: Vec<usize> = serde_json::from_value(f.replay["schedule"].clone()).unwrap_or_default();
    let mut rng = Prng::new(s_seed ^ 0x5eed_5eed);
    let mut best = (sc, kind, s_seed, steps, f.detail.clone());
    let mut progress = true;
    while progress {
        progress = false;
        let cur = best.0.clone();
        'cands: for t in 0..cur.threads.len() {
            for j in 0..cur.threads[t].len() {
                let mut cand = cur.clone();
                cand.threads[t].remove(j);
                cand.threads.retain(|x| !x.is_empty());
                if cand.threads.is_empty() {
                    continue;
                }
                let arc = Arc::new(cand.clone());
                let mut dummy = RunOut::default();
                let mut shapes = BTreeSet::new();
                let found = explore(&arc, &mut rng, &f.property, 300, &mut dummy, &mut shapes);
                if let Some(x) = found.into_iter().find(|x| x.0 == f.signature) {
                    best = (cand, x.2, x.3, x.4, x.1);
                    progress = true;
                    break 'cands;
                }
            }
        }
    }
    Finding { property: f.property.clone(), signature: f.signature.clone(), detail: best.4.clone(), replay: replay_doc(&best.0, best.1, best.2, &best.3) }
}

pub fn replay(doc: &serde_json::Value, prop: &str) -> Vec<(String, String)> {
    let sc: Scenario = serde_json::from_value(doc["scenario"].clone()).unwrap();
    let steps: Vec<usize> = serde_json::from_value(doc["schedule"].clone()).unwrap_or_default();
    let sc = Arc::new(sc);
    let mut sched = ReplayScheduler::new_from_schedule(simlock::schedule_from_steps(&steps));
    sched.set_allow_incomplete();
    let ex = run_schedule(&sc, Box::new(sched));
    println!("  scenario: {:?}", sc.threads);
    println!("  schedule ({} steps): {:?}", steps.len(), steps);
    judge(&sc, &ex, prop)
}
