//! DISK — persistent `GrafeoDB` over a tapped tmpfs directory and a simulated clock
//! (C05: clean close/reopen; C06: crash images, torn tails, bit flips, continuation).
//!
//! The WAL's file operations are observed through the `grafeo_common::verif` file seam:
//! every byte that leaves the WAL's `BufWriter`, every `sync_all`, create, rename and
//! remove is appended to the run's disk log. A crash is not executed: the surviving
//! directory is *computed* from a prefix of that log (durable bytes always, un-synced bytes
//! up to a PRNG-chosen length, optionally torn), written to a fresh tmpfs directory and
//! opened by the next incarnation.

use std::cell::{Cell, RefCell};
use std::collections::{BTreeMap, BTreeSet};
use std::path::{Path, PathBuf};
use std::rc::Rc;

use grafeo_common::types::{EdgeId, NodeId, PropertyKey, Value};
use grafeo_common::verif::{self, FsEvent};
use grafeo_engine::{Config as DbConfig, DurabilityMode, GrafeoDB};
use serde::{Deserialize, Serialize};
use serde_json::json;

use crate::fw::{Finding, RunOut, guarded, panic_class};
use crate::model_graph::{MEdge, MNode, RefGraph, SV, gen_value};
use crate::prng::{Prng, fnv};

pub const LABELS: [&str; 3] = ["A", "B", "C"];
pub const KEYS: [&str; 3] = ["k", "m", "z"];
pub const TYPES: [&str; 2] = ["R", "S"];

#[derive(Clone, Debug, PartialEq, Serialize, Deserialize)]
pub enum Op {
    CreateNode(Vec<u8>),
    CreateNodeProps(Vec<u8>, Vec<(u8, SV)>),
    BatchCreate(u8, Vec<Vec<u32>>),
    DeleteNode(usize),
    SetNodeProp(usize, u8, SV),
    RemoveNodeProp(usize, u8),
    AddLabel(usize, u8),
    RemoveLabel(usize, u8),
    CreateEdge(usize, usize, u8),
    CreateEdgeProps(usize, usize, u8, Vec<(u8, SV)>),
    DeleteEdge(usize),
    SetEdgeProp(usize, u8, SV),
    RemoveEdgeProp(usize, u8),
    /// `session.execute("INSERT (:L {k: <int>})")` in auto-commit mode.
    QueryInsert(u8, i64),
    /// `session.execute("MATCH (n) WHERE id(n) = X SET n.k = <int>")`.
    QuerySet(usize, u8, i64),
    Checkpoint,
    Rotate,
    Sync,
    Flush,
    ClockAdvance(u64),
    /// Clean close followed by reopen of the same directory.
    CloseReopen,
    /// Drop without explicit close (Drop closes), then reopen.
    DropReopen,
    /// Dirty restart: crash after disk event `pick` (fraction of this incarnation's events,
    /// in 1/1000), image shaped by `img_seed`.
    Crash { pick: u16, img_seed: u64 },
    /// Flip one bit of one log file on a cleanly closed directory, then reopen.
    BitFlip { file_pick: u16, bit_pick: u32 },
}

impl Op {
    pub fn kind(&self) -> &'static str {
        match self {
            Op::CreateNode(_) => "create_node",
            Op::CreateNodeProps(..) => "create_node_with_props",
            Op::BatchCreate(..) => "batch_create_nodes",
            Op::DeleteNode(_) => "delete_node",
            Op::SetNodeProp(..) => "set_node_property",
            Op::RemoveNodeProp(..) => "remove_node_property",
            Op::AddLabel(..) => "add_node_label",
            Op::RemoveLabel(..) => "remove_node_label",
            Op::CreateEdge(..) => "create_edge",
            Op::CreateEdgeProps(..) => "create_edge_with_props",
            Op::DeleteEdge(_) => "delete_edge",
            Op::SetEdgeProp(..) => "set_edge_property",
            Op::RemoveEdgeProp(..) => "remove_edge_property",
            Op::QueryInsert(..) => "query_insert",
            Op::QuerySet(..) => "query_set",
            Op::Checkpoint => "wal_checkpoint",
            Op::Rotate => "rotate",
            Op::Sync => "sync",
            Op::Flush => "flush",
            Op::ClockAdvance(_) => "clock_advance",
            Op::CloseReopen => "close_reopen",
            Op::DropReopen => "drop_reopen",
            Op::Crash { .. } => "crash",
            Op::BitFlip { .. } => "bitflip",
        }
    }
    fn is_mutation(&self) -> bool {
        !matches!(
            self,
            Op::Checkpoint
                | Op::Rotate
                | Op::Sync
                | Op::Flush
                | Op::ClockAdvance(_)
                | Op::CloseReopen
                | Op::DropReopen
                | Op::Crash { .. }
                | Op::BitFlip { .. }
        )
    }
    /// Mutations for which the pinned tree writes no WAL record (root cause U).
    fn unlogged(&self) -> bool {
        matches!(
            self,
            Op::RemoveNodeProp(..) | Op::RemoveEdgeProp(..) | Op::QueryInsert(..) | Op::QuerySet(..)
        )
    }
}

#[derive(Clone, Copy, Debug, PartialEq, Eq, Serialize, Deserialize)]
pub enum Dur {
    Sync,
    Batch { max_delay_ms: u64, max_records: u64 },
    Adaptive,
    NoSync,
}

#[derive(Clone, Debug, Serialize, Deserialize)]
pub struct Config {
    pub property: String,
    pub durability: Dur,
    pub max_log_size: Option<u64>,
    pub bufwriter_capacity: Option<u64>,
    /// Crash images probed (opened, judged, discarded) before every close / at the end.
    pub probes_per_incarnation: u32,
    pub probe_seed: u64,
}

#[derive(Clone, Debug)]
struct Ev {
    op: usize,
    kind: FsEvent,
}

#[derive(Clone, Debug, Default)]
struct FileState {
    bytes: Vec<u8>,
    durable_len: usize,
    /// The directory entry is durable (file existed at incarnation start or was fsynced).
    entry_durable: bool,
}

type Files = BTreeMap<String, FileState>;

fn rel(p: &Path) -> String {
    p.file_name().map(|s| s.to_string_lossy().to_string()).unwrap_or_default()
}

/// Replays disk events `..=k` on top of the incarnation's base files.
fn files_at(base: &Files, events: &[Ev], upto: usize, rename_lenient_old: bool) -> Files {
    let mut fs = base.clone();
    let mut last_rename: Option<(String, String, Option<FileState>)> = None;
    for ev in events.iter().take(upto) {
        match &ev.kind {
            FsEvent::Open { path, existed, .. } => {
                if !existed {
                    fs.insert(rel(path), FileState::default());
                }
            }
            FsEvent::Create { path } => {
                fs.insert(rel(path), FileState::default());
            }
            FsEvent::Write { path, data } => {
                fs.entry(rel(path)).or_default().bytes.extend_from_slice(data);
            }
            FsEvent::Sync { path } => {
                let f = fs.entry(rel(path)).or_default();
                f.durable_len = f.bytes.len();
                f.entry_durable = true;
            }
            FsEvent::Rename { from, to } => {
                let old_target = fs.get(&rel(to)).cloned();
                if let Some(f) = fs.remove(&rel(from)) {
                    fs.insert(rel(to), f);
                }
                last_rename = Some((rel(from), rel(to), old_target));
            }
            FsEvent::Remove { path } => {
                fs.remove(&rel(path));
            }
        }
    }
    // Rename durability is modelled leniently: the newest rename may not have reached the
    // disk yet, in which case the old target (if any) is still there.
    if rename_lenient_old {
        if let Some((_from, to, old)) = last_rename {
            match old {
                Some(o) => {
                    fs.insert(to, o);
                }
                None => {
                    fs.remove(&to);
                }
            }
        }
    }
    fs
}

/// Independent reader of the `len | payload | crc32` framing: returns end offsets of the
/// valid records starting at `from`, stopping at the first invalid one.
pub(crate) fn valid_record_ends(bytes: &[u8], from: usize) -> Vec<usize> {
    let mut out = Vec::new();
    let mut pos = from;
    loop {
        if pos + 4 > bytes.len() {
            break;
        }
        let len = u32::from_le_bytes(bytes[pos..pos + 4].try_into().unwrap()) as usize;
        let end = pos + 4 + len + 4;
        // len == 0 frames "validly" (crc32 of nothing is 0, so a run of zero bytes looks
        // like empty records) but no record decodes from an empty payload
        if end > bytes.len() || len > (1 << 28) || len == 0 {
            break;
        }
        let payload = &bytes[pos + 4..pos + 4 + len];
        let crc = u32::from_le_bytes(bytes[pos + 4 + len..end].try_into().unwrap());
        if crc32fast::hash(payload) != crc {
            break;
        }
        out.push(end);
        pos = end;
    }
    out
}

/// Number of valid records at the end of the log (all files in sequence order) that are
/// not followed by a TxCommit / TxAbort / Checkpoint marker, i.e. still pending for recovery.
fn pending_records(files: &Files) -> usize {
    use grafeo_adapters::storage::wal::WalRecord;
    let mut names: Vec<&String> = files.keys().filter(|n| seq_of(n).is_some()).collect();
    names.sort_by_key(|n| seq_of(n).unwrap());
    let mut pending = 0usize;
    for n in names {
        let bytes = &files[n].bytes;
        let mut pos = 0usize;
        for end in valid_record_ends(bytes, 0) {
            let payload = &bytes[pos + 4..end - 4];
            match bincode::serde::decode_from_slice::<WalRecord, _>(payload, bincode::config::standard()) {
                Ok((WalRecord::TxCommit { .. } | WalRecord::TxAbort { .. } | WalRecord::Checkpoint { .. }, _)) => pending = 0,
                Ok(_) => pending += 1,
                Err(_) => break,
            }
            pos = end;
        }
    }
    pending
}

fn seq_of(name: &str) -> Option<u64> {
    name.strip_prefix("wal_")?.strip_suffix(".log")?.parse().ok()
}

struct Tap {
    events: Rc<RefCell<Vec<Ev>>>,
    cur_op: Rc<Cell<usize>>,
    recording: Rc<Cell<bool>>,
    clock: Rc<Cell<u64>>,
}

impl Tap {
    fn install(cfg: &Config) -> Tap {
        let events: Rc<RefCell<Vec<Ev>>> = Rc::new(RefCell::new(Vec::new()));
        let cur_op = Rc::new(Cell::new(0usize));
        let recording = Rc::new(Cell::new(true));
        let clock = Rc::new(Cell::new(1_000_000_000u64));
        let (e2, c2, r2, k2) = (events.clone(), cur_op.clone(), recording.clone(), clock.clone());
        verif::install(Some(verif::Hooks {
            fs_event: Some(Box::new(move |ev| {
                if r2.get() {
                    e2.borrow_mut().push(Ev { op: c2.get(), kind: ev });
                }
            })),
            clock_ns: Some(Box::new(move || k2.get())),
            yield_point: None,
            run_scoped: None,
        }));
        verif::set_knob("wal.max_log_size", cfg.max_log_size);
        verif::set_knob("io.bufwriter.capacity", cfg.bufwriter_capacity);
        Tap { events, cur_op, recording, clock }
    }
}

impl Drop for Tap {
    fn drop(&mut self) {
        verif::install(None);
        verif::set_knob("wal.max_log_size", None);
        verif::set_knob("io.bufwriter.capacity", None);
    }
}

fn db_config(path: &Path, d: Dur) -> DbConfig {
    let mode = match d {
        Dur::Sync => DurabilityMode::Sync,
        Dur::Batch { max_delay_ms, max_records } => DurabilityMode::Batch { max_delay_ms, max_records },
        Dur::Adaptive => DurabilityMode::Adaptive { target_interval_ms: 50 },
        Dur::NoSync => DurabilityMode::NoSync,
    };
    DbConfig::persistent(path.to_path_buf()).with_wal_durability(mode)
}

/// Full dump through the iteration API, cross-checked with point lookups.
fn dump(db: &GrafeoDB, node_ids: &BTreeSet<u64>, edge_ids: &BTreeSet<u64>) -> Result<RefGraph, String> {
    let mut g = RefGraph::default();
    for n in db.iter_nodes() {
        g.nodes.insert(
            n.id.as_u64(),
            MNode {
                labels: n.labels.iter().map(|l| l.to_string()).collect(),
                props: n
                    .properties
                    .iter()
                    .map(|(k, v)| (k.as_str().to_string(), SV::from_value(v)))
                    .collect(),
            },
        );
    }
    for e in db.iter_edges() {
        g.edges.insert(
            e.id.as_u64(),
            MEdge {
                src: e.src.as_u64(),
                dst: e.dst.as_u64(),
                ty: e.edge_type.to_string(),
                props: e
                    .properties
                    .iter()
                    .map(|(k, v)| (k.as_str().to_string(), SV::from_value(v)))
                    .collect(),
            },
        );
    }
    if db.node_count() != g.nodes.len() || db.edge_count() != g.edges.len() {
        return Err(format!(
            "node_count/edge_count {}/{} disagree with iteration {}/{}",
            db.node_count(),
            db.edge_count(),
            g.nodes.len(),
            g.edges.len()
        ));
    }
    for id in node_ids.iter().chain(g.nodes.keys()) {
        let got = db.get_node(NodeId::new(*id)).is_some();
        if got != g.nodes.contains_key(id) {
            return Err(format!("get_node({id}) = {got} disagrees with iteration"));
        }
    }
    for id in edge_ids.iter().chain(g.edges.keys()) {
        let got = db.get_edge(EdgeId::new(*id)).is_some();
        if got != g.edges.contains_key(id) {
            return Err(format!("get_edge({id}) = {got} disagrees with iteration"));
        }
    }
    Ok(g)
}

fn diff_summary(a: &RefGraph, b: &RefGraph) -> String {
    let mut s = Vec::new();
    for (id, n) in &a.nodes {
        match b.nodes.get(id) {
            None => s.push(format!("node {id} only in recovered")),
            Some(m) if m != n => s.push(format!("node {id} differs: recovered {n:?} vs expected {m:?}")),
            _ => {}
        }
    }
    for id in b.nodes.keys() {
        if !a.nodes.contains_key(id) {
            s.push(format!("node {id} missing from recovered"));
        }
    }
    for (id, e) in &a.edges {
        match b.edges.get(id) {
            None => s.push(format!("edge {id} only in recovered")),
            Some(m) if m != e => s.push(format!("edge {id} differs: recovered {e:?} vs expected {m:?}")),
            _ => {}
        }
    }
    for id in b.edges.keys() {
        if !a.edges.contains_key(id) {
            s.push(format!("edge {id} missing from recovered"));
        }
    }
    s.truncate(4);
    s.join("; ")
}

/// As-is: a node created under an id that already has stray property values shows them
/// (explicitly set keys win).
fn adopt_orphans(g: &mut RefGraph, id: u64) {
    if let Some(o) = g.orphans.remove(&id) {
        if let Some(n) = g.nodes.get_mut(&id) {
            for (k, v) in o {
                n.props.entry(k).or_insert(v);
            }
        }
    }
}

/// Reference replay: what the bytes of a WAL directory *say*, by the format's own rules,
/// computed without any code of the tree: files in sequence order; in each file the valid
/// `len | payload | crc` frames up to the first invalid one; records become effective when a
/// TxCommit follows them, TxAbort and Checkpoint drop the pending ones; the effective records
/// are applied to an empty graph. A recovery that returns this state is *faithful to the log*:
/// whatever it lacks was never (durably, committedly) written. A recovery that returns
/// anything else has a defect of its own.
fn reference_replay(wal_dir: &Path) -> RefGraph {
    use grafeo_adapters::storage::wal::WalRecord;
    let files = World::read_dir_files(wal_dir);
    let mut names: Vec<&String> = files.keys().filter(|n| seq_of(n).is_some()).collect();
    names.sort_by_key(|n| seq_of(n).unwrap());
    let mut pending: Vec<WalRecord> = Vec::new();
    let mut committed: Vec<WalRecord> = Vec::new();
    for n in names {
        let bytes = &files[n].bytes;
        let mut pos = 0usize;
        for end in valid_record_ends(bytes, 0) {
            let payload = &bytes[pos + 4..end - 4];
            pos = end;
            match bincode::serde::decode_from_slice::<WalRecord, _>(payload, bincode::config::standard()) {
                Ok((WalRecord::TxCommit { .. }, _)) => committed.append(&mut pending),
                Ok((WalRecord::TxAbort { .. } | WalRecord::Checkpoint { .. }, _)) => pending.clear(),
                Ok((r, _)) => pending.push(r),
                Err(_) => break,
            }
        }
    }
    let mut g = RefGraph::default();
    // property values logged for an edge id that has no edge (yet): the store's property
    // columns are keyed by id and keep them, an edge created under that id later shows them
    let mut edge_orphans: BTreeMap<u64, BTreeMap<String, SV>> = BTreeMap::new();
    for r in committed {
        match r {
            WalRecord::CreateNode { id, labels } => {
                // a second CreateNode for a live id (only possible when records that a crash
                // left pending are resurrected): the node record and its labels are replaced,
                // the property columns are keyed by id and keep what they hold
                let props = g.nodes.remove(&id.as_u64()).map(|n| n.props).unwrap_or_default();
                g.nodes.insert(id.as_u64(), MNode { labels: labels.into_iter().collect(), props });
                adopt_orphans(&mut g, id.as_u64());
            }
            WalRecord::DeleteNode { id } => {
                g.nodes.remove(&id.as_u64());
            }
            WalRecord::CreateEdge { id, src, dst, edge_type } => {
                let mut props = g.edges.remove(&id.as_u64()).map(|e| e.props).unwrap_or_default();
                if let Some(o) = edge_orphans.remove(&id.as_u64()) {
                    for (k, v) in o {
                        props.entry(k).or_insert(v);
                    }
                }
                g.edges.insert(id.as_u64(), MEdge { src: src.as_u64(), dst: dst.as_u64(), ty: edge_type, props });
            }
            WalRecord::DeleteEdge { id } => {
                g.edges.remove(&id.as_u64());
            }
            WalRecord::SetNodeProperty { id, key, value } => {
                let v = SV::from_value(&value);
                match g.nodes.get_mut(&id.as_u64()) {
                    Some(n) => {
                        n.props.insert(key, v);
                    }
                    None => {
                        g.orphans.entry(id.as_u64()).or_default().insert(key, v);
                    }
                }
            }
            WalRecord::SetEdgeProperty { id, key, value } => match g.edges.get_mut(&id.as_u64()) {
                Some(e) => {
                    e.props.insert(key, SV::from_value(&value));
                }
                None => {
                    edge_orphans.entry(id.as_u64()).or_default().insert(key, SV::from_value(&value));
                }
            },
            WalRecord::AddNodeLabel { id, label } => {
                if let Some(n) = g.nodes.get_mut(&id.as_u64()) {
                    n.labels.insert(label);
                }
            }
            WalRecord::RemoveNodeLabel { id, label } => {
                if let Some(n) = g.nodes.get_mut(&id.as_u64()) {
                    n.labels.remove(&label);
                }
            }
            _ => {}
        }
    }
    g
}

/// One incarnation's bookkeeping.
struct Inc {
    dir: PathBuf,
    base: Files,
    /// Index into the global op list of the first op of this incarnation.
    first_op: usize,
    /// records logged by the WAL of this incarnation after each op (indexed by op - first_op)
    recs_after: Vec<u64>,
    /// events of this incarnation
    ev_start: usize,
}

pub struct ExecResult {
    pub findings: Vec<(String, String)>,
    pub probes: BTreeMap<&'static str, u64>,
    pub faults: BTreeMap<&'static str, u64>,
    pub steps_done: usize,
    pub nontrivial: bool,
    pub digest: u64,
    pub sim_ms: u64,
    pub log: Vec<String>,
}

struct World {
    cfg: Config,
    root: PathBuf,
    tap: Tap,
    db: Option<GrafeoDB>,
    inc: Inc,
    inc_no: u32,
    /// spec model after each op (index i = state after ops[..=i]); states[len] current
    model: RefGraph,
    /// as-is model: applies only mutations that the pinned tree logs (root cause U)
    model_logged: RefGraph,
    /// snapshots: (spec, logged-only) after op i
    snaps: Vec<(RefGraph, RefGraph)>,
    node_slots: Vec<u64>,
    edge_slots: Vec<u64>,
    all_node_ids: BTreeSet<u64>,
    all_edge_ids: BTreeSet<u64>,
    /// index (in ops) after which the last completed clean close / checkpoint happened
    ops_at_last_close: usize,
    ops_at_last_ckpt: usize,
    /// API-level durability points: (absolute disk-event index at which the call returned,
    /// number of ops issued before it, kind). A crash at or after that event index must
    /// not lose those ops, whatever the bytes say.
    api_marks: Vec<(usize, usize, &'static str)>,
    unlogged_seen: BTreeSet<&'static str>,
    probes: BTreeMap<&'static str, u64>,
    faults: BTreeMap<&'static str, u64>,
    findings: Vec<(String, String)>,
    log: Vec<String>,
    prop: String,
    /// "" until a crash image with a kept un-synced tail or a bit flip was opened
    faulted: &'static str,
    /// Sticky: some incarnation was opened on a log file whose bytes do not end on a
    /// valid record boundary (torn tail or flipped bit). Root cause T: the tree appends
    /// after such bytes, and nothing behind them is ever read again.
    dirty_tail: bool,
    /// Sticky: some incarnation was opened on a log that still held valid records without
    /// a commit marker behind them (only possible after a crash). Root cause M: recovery
    /// ignores them, but they stay in the log and the next commit marker resurrects them.
    pending_at_open: bool,
    /// Set when an incarnation starts on such a log; the sticky flags above only become
    /// effective once that incarnation has appended a record / written a commit marker,
    /// so the judgement of the recovery that directly follows the fault is never relaxed.
    dirty_armed: bool,
    pending_armed: bool,
    /// reference replay of the directory the database was last opened on, taken before
    /// the open (`reference_replay`)
    log_view: Option<RefGraph>,
    /// set by `judge_recovered`: does the recovered state equal `log_view`?
    cur_faithful: Option<bool>,
    cur_got: Option<RefGraph>,
    /// (file, bit) positions flipped so far in this run
    flipped_bits: BTreeSet<(String, usize)>,
    /// Sticky: a bit was flipped in a log file that is not the newest one. Listed root cause:
    /// recovery goes on with the later files, so their records are applied without the
    /// records they build on (which may only show at a later reopen).
    older_file_flipped: bool,
}

impl World {
    fn p(&mut self, k: &'static str) {
        *self.probes.entry(k).or_insert(0) += 1;
    }
    fn fault(&mut self, k: &'static str) {
        *self.faults.entry(k).or_insert(0) += 1;
    }
    fn find(&mut self, sig: String, detail: String) {
        let about_loss = sig.contains("| lost-tail |") || sig.contains("| not-a-prefix");
        // Every listed root cause of a lost tail is on the *writing* side (no commit marker
        // yet, records appended behind invalid bytes, records that a crash left pending): the
        // recovery itself then returns exactly what the bytes say. A recovery that returns
        // something else than the reference replay of the same bytes is a different matter
        // and never gets one of those signatures.
        let faithful = self.cur_faithful.unwrap_or(false);
        let (sig, detail) = if about_loss && !faithful {
            let d = match (&self.cur_got, &self.log_view) {
                (Some(g), Some(v)) => diff_summary(g, v),
                _ => "no reference replay".to_string(),
            };
            (format!("{sig} | recovery-differs-from-log-content"), format!("{detail} ## recovered vs reference replay of the bytes: {d}"))
        } else if self.dirty_tail && about_loss {
            (
                format!("{} | after-invalid-log-tail | records-appended-behind-invalid-bytes-lost | recovery-faithful-to-log", self.prop),
                format!("[{sig}] {detail}"),
            )
        } else if self.pending_at_open && about_loss {
            (
                format!("{} | after-uncommitted-records-in-log | discarded-records-resurrected-by-next-commit-marker | recovery-faithful-to-log", self.prop),
                format!("[{sig}] {detail}"),
            )
        } else if self.older_file_flipped && about_loss && !sig.contains("| bitflip-in-older-log-file |") {
            (
                format!("{} | bitflip-in-older-log-file | not-a-prefix | recovery-faithful-to-log", self.prop),
                format!("[{sig}] {detail}"),
            )
        } else if about_loss {
            (format!("{sig} | recovery-faithful-to-log"), detail)
        } else {
            (sig, detail)
        };
        if !self.findings.iter().any(|(s, _)| *s == sig) {
            self.findings.push((sig, detail));
        }
    }

    /// Byte-level form of the durability promise: when sync / wal_checkpoint / close has
    /// returned, every byte written to a log file so far has been covered by an fsync of that
    /// file (otherwise a crash right now may lose acknowledged work, whatever recovery does).
    fn check_written_bytes_durable(&mut self, api: &'static str, step: usize) {
        let evs = self.events_of_inc();
        let fs = files_at(&self.inc.base, &evs, evs.len(), false);
        for (name, f) in &fs {
            if seq_of(name).is_some() && f.durable_len < f.bytes.len() {
                let (prop, d, l) = (self.prop.clone(), f.durable_len, f.bytes.len());
                self.find(
                    format!("{prop} | api={api} | returned-with-log-bytes-not-fsynced"),
                    format!("step {step}: {name}: {l} bytes written, only {d} covered by an fsync when {api} returned"),
                );
            }
        }
        self.p("written_bytes_checked_durable_after_durability_call");
    }

    fn wal_dir(&self) -> PathBuf {
        self.inc.dir.join("wal")
    }

    fn read_dir_files(dir: &Path) -> Files {
        let mut fs = Files::new();
        if let Ok(rd) = std::fs::read_dir(dir) {
            for e in rd.flatten() {
                if e.path().is_file() {
                    let bytes = std::fs::read(e.path()).unwrap_or_default();
                    let n = bytes.len();
                    fs.insert(
                        e.file_name().to_string_lossy().to_string(),
                        FileState { bytes, durable_len: n, entry_durable: true },
                    );
                }
            }
        }
        fs
    }

    /// Opens the database on `dir` and starts a new incarnation.
    fn open(&mut self, dir: PathBuf, at_op: usize) -> Result<(), String> {
        let base = Self::read_dir_files(&dir.join("wal"));
        for (name, f) in &base {
            if seq_of(name).is_some() {
                let ends = valid_record_ends(&f.bytes, 0);
                if ends.last().copied().unwrap_or(0) != f.bytes.len() {
                    self.dirty_armed = true;
                    *self.probes.entry("incarnation_opened_on_invalid_log_tail").or_insert(0) += 1;
                }
            }
        }
        if pending_records(&base) > 0 {
            self.pending_armed = true;
            *self.probes.entry("incarnation_opened_on_uncommitted_records").or_insert(0) += 1;
        }
        let ev_start = self.tap.events.borrow().len();
        self.inc = Inc { dir: dir.clone(), base, first_op: at_op, recs_after: Vec::new(), ev_start };
        self.log_view = guarded(|| reference_replay(&dir.join("wal"))).ok();
        let cfgd = db_config(&dir, self.cfg.durability);
        match guarded(|| GrafeoDB::with_config(cfgd)) {
            Ok(Ok(db)) => {
                self.db = Some(db);
                Ok(())
            }
            Ok(Err(e)) => Err(format!("open returned Err: {e}")),
            Err(p) => Err(format!("open panicked: {p}")),
        }
    }

    fn events_of_inc(&self) -> Vec<Ev> {
        self.tap.events.borrow()[self.inc.ev_start..].to_vec()
    }

    /// Number of ops (global index) fully durable at event index `k` of this incarnation,
    /// judged from bytes only: an op is durable when every record it logged lies below the
    /// durable length of its file.
    fn floor_sync(&self, evs: &[Ev], k: usize) -> usize {
        let fs_k = files_at(&self.inc.base, evs, k, false);
        let fs_all = files_at(&self.inc.base, evs, evs.len(), false);
        // ordered (file, end) of every record this incarnation wrote
        let mut names: Vec<&String> = fs_all.keys().filter(|n| seq_of(n).is_some()).collect();
        names.sort_by_key(|n| seq_of(n).unwrap());
        let mut rec_pos: Vec<(String, usize)> = Vec::new();
        for n in names {
            let base_len = self.inc.base.get(n).map_or(0, |f| f.bytes.len());
            for end in valid_record_ends(&fs_all[n].bytes, base_len) {
                rec_pos.push((n.clone(), end));
            }
        }
        let mut floor = self.inc.first_op;
        for (i, &rc) in self.inc.recs_after.iter().enumerate() {
            let mut ok = true;
            let lo = if i == 0 { 0 } else { self.inc.recs_after[i - 1] };
            for r in lo..rc {
                match rec_pos.get(r as usize) {
                    Some((f, end)) => {
                        let d = fs_k.get(f).map_or(0, |x| x.durable_len);
                        if *end > d {
                            ok = false;
                        }
                    }
                    None => ok = false,
                }
            }
            if !ok {
                break;
            }
            floor = self.inc.first_op + i + 1;
        }
        floor
    }

    /// Materialises a crash image for event index `k` into a new directory.
    fn build_image(&mut self, evs: &[Ev], k: usize, img: &mut Prng) -> (PathBuf, String) {
        let lenient_old = img.chance(1, 3);
        let fs = files_at(&self.inc.base, evs, k, lenient_old);
        self.inc_no += 1;
        let dir = self.root.join(format!("inc{}", self.inc_no));
        let wal = dir.join("wal");
        std::fs::create_dir_all(&wal).expect("tmpfs mkdir");
        let mut desc = Vec::new();
        for (name, f) in &fs {
            let written = f.bytes.len();
            let dur = f.durable_len.min(written);
            if !f.entry_durable && img.chance(1, 3) {
                desc.push(format!("{name}:absent"));
                self.fault("unsynced_new_file_absent");
                continue;
            }
            // length: durable, written, or something in between (biased to record edges +-1)
            let len = if written == dur {
                dur
            } else {
                match img.below(6) {
                    0 => dur,
                    1 => written,
                    2 => {
                        let ends = valid_record_ends(&f.bytes, 0);
                        let cands: Vec<usize> = ends
                            .iter()
                            .flat_map(|e| [e.saturating_sub(1), *e, e + 1, e + 3, e + 5])
                            .filter(|x| *x >= dur && *x <= written)
                            .collect();
                        if cands.is_empty() { dur } else { *img.pick(&cands) }
                    }
                    _ => dur + img.usize(written - dur + 1),
                }
            };
            let mut bytes = f.bytes[..len].to_vec();
            if len > dur {
                self.fault("unsynced_tail_kept");
                // torn sector: part of the un-synced tail replaced by zeros or garbage
                match img.below(5) {
                    0 => {
                        let from = dur + img.usize(len - dur);
                        for b in &mut bytes[from..] {
                            *b = 0;
                        }
                        self.fault("torn_tail_zeros");
                    }
                    1 => {
                        let from = dur + img.usize(len - dur);
                        for b in &mut bytes[from..] {
                            *b = (img.next_u64() & 0xff) as u8;
                        }
                        self.fault("torn_tail_garbage");
                    }
                    _ => {}
                }
            } else if len < written {
                self.fault("unsynced_tail_lost");
            }
            std::fs::write(wal.join(name), &bytes).expect("tmpfs write");
            desc.push(format!("{name}:{len}/{dur}d/{written}w"));
        }
        (dir, format!("{}{}", if lenient_old { "rename-not-durable " } else { "" }, desc.join(" ")))
    }

    /// Judges a recovered dump against the allowed prefixes.
    /// `floor`: ops (global count) that must be reflected; `issued`: ops started so far.
    fn judge_recovered(
        &mut self,
        got: &RefGraph,
        floor_sync: usize,
        issued: usize,
        ctx: &str,
        clean: bool,
        crash_event_abs: usize,
    ) -> Option<usize> {
        self.cur_faithful = self.log_view.as_ref().map(|v| got.same_graph(v));
        self.cur_got = Some(got.clone());
        match self.cur_faithful {
            Some(true) => self.p("recovery_equal_to_reference_replay_of_the_bytes"),
            Some(false) => self.p("recovery_differs_from_reference_replay_of_the_bytes"),
            None => {}
        }
        // snaps[i] = state after op i; state "after p ops" = snaps[p-1], p=0 → empty
        let state = |w: &World, p: usize, logged: bool| -> RefGraph {
            if p == 0 {
                RefGraph::default()
            } else if logged {
                w.snaps[p - 1].1.clone()
            } else {
                w.snaps[p - 1].0.clone()
            }
        };
        // floors: bytes below the last fsync, and what the API promised by returning
        let (mut f_close, mut f_ckpt, mut f_sync) = (self.ops_at_last_close, 0usize, floor_sync);
        for (ev_idx, n_ops, kind) in &self.api_marks {
            if *ev_idx <= crash_event_abs {
                match *kind {
                    "close" => f_close = f_close.max(*n_ops),
                    "checkpoint" => f_ckpt = f_ckpt.max(*n_ops),
                    _ => f_sync = f_sync.max(*n_ops),
                }
            }
        }
        let f_close = f_close.min(issued);
        let f_ckpt = f_ckpt.min(issued);
        let f_sync = f_sync.min(issued);
        // a flipped bit may legitimately cost anything behind it: no floor in that case
        let lo_req = if clean { issued } else if ctx.starts_with("bitflip") { 0 } else { f_close.max(f_ckpt).max(f_sync) };
        // 1. the specification: some prefix p with floor <= p <= issued
        for p in (lo_req..=issued).rev() {
            if got.same_graph(&state(self, p, false)) {
                return Some(p);
            }
        }
        // 2a. the as-is model (mutations the tree never logs are skipped) within the range
        if !self.unlogged_seen.is_empty() {
            for p in (lo_req..=issued).rev() {
                if got.same_graph(&state(self, p, true)) {
                    let kinds: Vec<&str> = self.unlogged_seen.iter().copied().collect();
                    for k in kinds {
                        self.find(
                            format!("{} | unlogged-mutation-lost | kind={k}", self.prop),
                            format!("recovered state equals the state after {p} ops with the mutations the tree never logs skipped"),
                        );
                    }
                    return Some(p);
                }
            }
        }
        // 2. a shorter prefix → floor violated; classify by what the recovered state is
        for p in (0..lo_req).rev() {
            if got.same_graph(&state(self, p, false)) {
                let to = if p == self.ops_at_last_close {
                    "last-close"
                } else if p == self.ops_at_last_ckpt {
                    "last-checkpoint"
                } else if p == 0 {
                    "empty"
                } else {
                    "other"
                };
                // with unlogged mutations in the history the spec prefix that matches can be
                // shorter than what the log actually yielded; classify by the as-is prefix
                let mut p = p;
                if !self.unlogged_seen.is_empty() {
                    for q in (p..lo_req).rev() {
                        if got.same_graph(&state(self, q, true)) {
                            p = q;
                            break;
                        }
                    }
                }
                let from = if clean {
                    "clean-close"
                } else if p < f_close {
                    "close"
                } else if p < f_ckpt {
                    "checkpoint"
                } else {
                    "sync"
                };
                self.find(
                    format!("{} | {ctx} | lost-tail | floor-from={from}", self.prop),
                    format!("recovered state is the state after {p} ops (= {to}), floor is {lo_req}, issued {issued}"),
                );
                return Some(p);
            }
        }
        // 3. not a prefix of the specification. Is it a prefix of the as-is model that
        //    skips the mutations the tree never logs?
        for p in (0..=issued).rev() {
            if got.same_graph(&state(self, p, true)) {
                let kinds: Vec<&str> = self.unlogged_seen.iter().copied().collect();
                let _ = ctx;
                for k in kinds {
                    self.find(
                        format!("{} | unlogged-mutation-lost | kind={k}", self.prop),
                        format!("recovered state equals the state after {p} ops with the mutations the tree never logs skipped"),
                    );
                }
                return Some(p);
            }
        }
        let want = state(self, issued, false);
        self.find(
            format!("{} | {ctx} | not-a-prefix", self.prop),
            format!("recovered state is no prefix state (floor {lo_req}, issued {issued}): {}", diff_summary(got, &want)),
        );
        None
    }

    /// Opens an image read-only-ish (events not recorded), dumps and judges it.
    fn probe_image(&mut self, evs: &[Ev], k: usize, img_seed: u64, issued: usize) {
        let mut img = Prng::new(img_seed);
        let floor = self.floor_sync(evs, k);
        let (dir, desc) = self.build_image(evs, k, &mut img);
        self.tap.recording.set(false);
        let saved_view = self.log_view.take();
        self.log_view = guarded(|| reference_replay(&dir.join("wal"))).ok();
        let cfgd = db_config(&dir, self.cfg.durability);
        let r = guarded(|| GrafeoDB::with_config(cfgd).map(|db| {
            let d = dump(&db, &BTreeSet::new(), &BTreeSet::new());
            drop(db);
            d
        }));
        self.tap.recording.set(true);
        self.fault("crash_image_probed");
        let issued_k = evs.get(k.saturating_sub(1)).map_or(self.inc.first_op, |e| e.op + 1).min(issued);
        match r {
            Err(p) => self.find(
                format!("{} | crash | open-panicked | {}", self.prop, panic_class(&p)),
                format!("image after event {k} [{desc}]: {p}"),
            ),
            Ok(Err(e)) => self.find(
                format!("{} | crash | open-failed", self.prop),
                format!("image after event {k} [{desc}]: {e}"),
            ),
            Ok(Ok(Err(e))) => self.find(
                format!("{} | crash | access-paths-disagree-after-recovery", self.prop),
                format!("image after event {k} [{desc}]: {e}"),
            ),
            Ok(Ok(Ok(g))) => {
                let before = self.findings.len();
                self.judge_recovered(&g, floor, issued_k.max(floor), "crash", false, self.inc.ev_start + k);
                if self.findings.len() > before {
                    let l = self.findings.len() - 1;
                    self.findings[l].1 = format!("image after event {k}/{} [{desc}] floor={floor}: {}", evs.len(), self.findings[l].1);
                }
            }
        }
        let _ = std::fs::remove_dir_all(&dir);
        self.log_view = saved_view;
    }
}

pub fn exec(cfg: &Config, ops: &[Op], run_tag: &str) -> ExecResult {
    let root = PathBuf::from(format!("/dev/shm/grafeo-sim/{}/{run_tag}", std::process::id()));
    let _ = std::fs::remove_dir_all(&root);
    std::fs::create_dir_all(&root).expect("tmpfs root");
    let tap = Tap::install(cfg);
    let mut w = World {
        cfg: cfg.clone(),
        root: root.clone(),
        tap,
        db: None,
        inc: Inc { dir: root.join("inc0"), base: Files::new(), first_op: 0, recs_after: Vec::new(), ev_start: 0 },
        inc_no: 0,
        model: RefGraph::default(),
        model_logged: RefGraph::default(),
        snaps: Vec::new(),
        node_slots: Vec::new(),
        edge_slots: Vec::new(),
        all_node_ids: BTreeSet::new(),
        all_edge_ids: BTreeSet::new(),
        ops_at_last_close: 0,
        ops_at_last_ckpt: 0,
        api_marks: Vec::new(),
        unlogged_seen: BTreeSet::new(),
        probes: BTreeMap::new(),
        faults: BTreeMap::new(),
        findings: Vec::new(),
        log: Vec::new(),
        prop: cfg.property.clone(),
        faulted: "",
        dirty_tail: false,
        pending_at_open: false,
        dirty_armed: false,
        pending_armed: false,
        log_view: None,
        cur_faithful: None,
        cur_got: None,
        flipped_bits: BTreeSet::new(),
        older_file_flipped: false,
    };
    let mut probe_rng = Prng::new(cfg.probe_seed);
    let mut steps_done = 0usize;
    let mut crashes = 0u32;
    let mut reopens = 0u32;
    let mut digest = 0u64;
    if let Err(e) = w.open(root.join("inc0"), 0) {
        w.find(format!("{} | open | fresh-directory | failed", w.prop), e);
    }

    'ops: for (i, op) in ops.iter().enumerate() {
        if !w.findings.is_empty() || w.db.is_none() {
            break;
        }
        w.tap.cur_op.set(i);
        let db_owned = w.db.take().unwrap();
        let db = &db_owned;
        let lab = |ls: &[u8]| -> Vec<&'static str> {
            let mut v: Vec<&'static str> = Vec::new();
            for l in ls {
                let s = LABELS[*l as usize % 3];
                if !v.contains(&s) {
                    v.push(s);
                }
            }
            v
        };
        let mut applied_both = |w: &mut World, f: &dyn Fn(&mut RefGraph), logged: bool| {
            f(&mut w.model);
            if logged {
                f(&mut w.model_logged);
            }
        };
        let logged = !op.unlogged();
        if op.unlogged() {
            w.unlogged_seen.insert(op.kind());
        }
        let res: Result<(), String> = guarded(|| -> Result<(), String> {
            match op {
                Op::CreateNode(ls) => {
                    let ls = lab(ls);
                    let id = db.create_node(&ls).as_u64();
                    if w.model.nodes.contains_key(&id) {
                        return Err(format!("id-collision: new node id {id} already exists"));
                    }
                    w.node_slots.push(id);
                    w.all_node_ids.insert(id);
                    let labels: BTreeSet<String> = ls.iter().map(|s| s.to_string()).collect();
                    applied_both(&mut w, &|g| { g.nodes.insert(id, MNode { labels: labels.clone(), props: BTreeMap::new() }); }, logged);
                    adopt_orphans(&mut w.model_logged, id);
                }
                Op::CreateNodeProps(ls, ps) => {
                    let ls = lab(ls);
                    let props: Vec<(PropertyKey, Value)> = ps.iter().map(|(k, v)| (PropertyKey::new(KEYS[*k as usize % 3]), v.to_value())).collect();
                    let id = db.create_node_with_props(&ls, props).as_u64();
                    if w.model.nodes.contains_key(&id) {
                        return Err(format!("id-collision: new node id {id} already exists"));
                    }
                    w.node_slots.push(id);
                    w.all_node_ids.insert(id);
                    let labels: BTreeSet<String> = ls.iter().map(|s| s.to_string()).collect();
                    let mut mp = BTreeMap::new();
                    for (k, v) in ps {
                        mp.insert(KEYS[*k as usize % 3].to_string(), v.clone());
                    }
                    applied_both(&mut w, &|g| { g.nodes.insert(id, MNode { labels: labels.clone(), props: mp.clone() }); }, logged);
                    adopt_orphans(&mut w.model_logged, id);
                }
                Op::BatchCreate(l, vecs) => {
                    let label = LABELS[*l as usize % 3];
                    let vs: Vec<Vec<f32>> = vecs.iter().map(|v| v.iter().map(|b| f32::from_bits(*b)).collect()).collect();
                    let ids = db.batch_create_nodes(label, "z", vs);
                    for (id, v) in ids.iter().zip(vecs) {
                        let id = id.as_u64();
                        if w.model.nodes.contains_key(&id) {
                            return Err(format!("id-collision: new node id {id} already exists"));
                        }
                        w.node_slots.push(id);
                        w.all_node_ids.insert(id);
                        let mut mp = BTreeMap::new();
                        mp.insert("z".to_string(), SV::Vector(v.clone()));
                        let labels: BTreeSet<String> = [label.to_string()].into_iter().collect();
                        applied_both(&mut w, &|g| { g.nodes.insert(id, MNode { labels: labels.clone(), props: mp.clone() }); }, logged);
                        adopt_orphans(&mut w.model_logged, id);
                    }
                }
                Op::DeleteNode(s) => {
                    if let Some(&id) = w.node_slots.get(*s) {
                        let live = w.model.nodes.contains_key(&id);
                        let r = db.delete_node(NodeId::new(id));
                        if r != live {
                            return Err(format!("delete_node({id}) returned {r}, live={live}"));
                        }
                        applied_both(&mut w, &|g| { g.nodes.remove(&id); }, logged);
                    }
                }
                Op::SetNodeProp(s, k, v) => {
                    if let Some(&id) = w.node_slots.get(*s) {
                        if w.model.nodes.contains_key(&id) {
                            let key = KEYS[*k as usize % 3];
                            db.set_node_property(NodeId::new(id), key, v.to_value());
                            applied_both(&mut w, &|g| { if let Some(n) = g.nodes.get_mut(&id) { n.props.insert(key.to_string(), v.clone()); } }, logged);
                            if !w.model_logged.nodes.contains_key(&id) {
                                // as-is: the store keeps a value for an id it has no node for
                                w.model_logged.orphans.entry(id).or_default().insert(key.to_string(), v.clone());
                            }
                        }
                    }
                }
                Op::RemoveNodeProp(s, k) => {
                    if let Some(&id) = w.node_slots.get(*s) {
                        if w.model.nodes.contains_key(&id) {
                            let key = KEYS[*k as usize % 3];
                            let r = db.remove_node_property(NodeId::new(id), key);
                            let want = w.model.nodes[&id].props.contains_key(key);
                            if r != want {
                                // as-is: what the log-only view holds for this id - including stray
                                // values for an id whose node creation was never logged (they are
                                // adopted by whatever node gets that id)
                                let want_asis = w.model_logged.nodes.get(&id).is_some_and(|n| n.props.contains_key(key))
                                    || w.model_logged.orphans.get(&id).is_some_and(|o| o.contains_key(key));
                                if r == want_asis && !w.unlogged_seen.is_empty() {
                                    return Err("as-is:unlogged".to_string());
                                }
                                if r == want_asis && w.older_file_flipped {
                                    return Err("as-is:older-file-flip".to_string());
                                }
                                return Err(format!("remove_node_property({id},{key}) returned {r}, expected {want}"));
                            }
                            applied_both(&mut w, &|g| { if let Some(n) = g.nodes.get_mut(&id) { n.props.remove(key); } }, logged);
                        }
                    }
                }
                Op::AddLabel(s, l) | Op::RemoveLabel(s, l) => {
                    if let Some(&id) = w.node_slots.get(*s) {
                        let label = LABELS[*l as usize % 3];
                        let add = matches!(op, Op::AddLabel(..));
                        let r = if add { db.add_node_label(NodeId::new(id), label) } else { db.remove_node_label(NodeId::new(id), label) };
                        let want = match w.model.nodes.get(&id) {
                            None => false,
                            Some(n) => n.labels.contains(label) != add,
                        };
                        if r != want {
                            return Err(format!("{}({id},{label}) returned {r}, expected {want}", op.kind()));
                        }
                        applied_both(&mut w, &|g| { if let Some(n) = g.nodes.get_mut(&id) { if add { n.labels.insert(label.to_string()); } else { n.labels.remove(label); } } }, logged);
                    }
                }
                Op::CreateEdge(a, b, t) | Op::CreateEdgeProps(a, b, t, _) => {
                    if let (Some(&src), Some(&dst)) = (w.node_slots.get(*a), w.node_slots.get(*b)) {
                        if w.model.nodes.contains_key(&src) && w.model.nodes.contains_key(&dst) {
                            let ty = TYPES[*t as usize % 2];
                            let mut mp = BTreeMap::new();
                            let id = if let Op::CreateEdgeProps(_, _, _, ps) = op {
                                let props: Vec<(PropertyKey, Value)> = ps.iter().map(|(k, v)| (PropertyKey::new(KEYS[*k as usize % 3]), v.to_value())).collect();
                                for (k, v) in ps {
                                    mp.insert(KEYS[*k as usize % 3].to_string(), v.clone());
                                }
                                db.create_edge_with_props(NodeId::new(src), NodeId::new(dst), ty, props).as_u64()
                            } else {
                                db.create_edge(NodeId::new(src), NodeId::new(dst), ty).as_u64()
                            };
                            if w.model.edges.contains_key(&id) {
                                return Err(format!("id-collision: new edge id {id} already exists"));
                            }
                            w.edge_slots.push(id);
                            w.all_edge_ids.insert(id);
                            applied_both(&mut w, &|g| { g.edges.insert(id, MEdge { src, dst, ty: ty.to_string(), props: mp.clone() }); }, logged);
                        }
                    }
                }
                Op::DeleteEdge(s) => {
                    if let Some(&id) = w.edge_slots.get(*s) {
                        let live = w.model.edges.contains_key(&id);
                        let r = db.delete_edge(EdgeId::new(id));
                        if r != live {
                            return Err(format!("delete_edge({id}) returned {r}, live={live}"));
                        }
                        applied_both(&mut w, &|g| { g.edges.remove(&id); }, logged);
                    }
                }
                Op::SetEdgeProp(s, k, v) => {
                    if let Some(&id) = w.edge_slots.get(*s) {
                        if w.model.edges.contains_key(&id) {
                            let key = KEYS[*k as usize % 3];
                            db.set_edge_property(EdgeId::new(id), key, v.to_value());
                            applied_both(&mut w, &|g| { if let Some(e) = g.edges.get_mut(&id) { e.props.insert(key.to_string(), v.clone()); } }, logged);
                        }
                    }
                }
                Op::RemoveEdgeProp(s, k) => {
                    if let Some(&id) = w.edge_slots.get(*s) {
                        if w.model.edges.contains_key(&id) {
                            let key = KEYS[*k as usize % 3];
                            let r = db.remove_edge_property(EdgeId::new(id), key);
                            let want = w.model.edges[&id].props.contains_key(key);
                            if r != want {
                                return Err(format!("remove_edge_property({id},{key}) returned {r}, expected {want}"));
                            }
                            applied_both(&mut w, &|g| { if let Some(e) = g.edges.get_mut(&id) { e.props.remove(key); } }, logged);
                        }
                    }
                }
                Op::QueryInsert(l, v) => {
                    let label = LABELS[*l as usize % 3];
                    let s = db.session();
                    let r = s.execute(&format!("INSERT (:{label} {{k: {v}}})")).map_err(|e| format!("query insert failed: {e}"))?;
                    let id = match r.rows.first().and_then(|row| row.first()) {
                        Some(Value::Int64(i)) => *i as u64,
                        other => return Err(format!("INSERT returned {other:?}")),
                    };
                    if w.model.nodes.contains_key(&id) {
                        return Err(format!("id-collision: new node id {id} already exists"));
                    }
                    w.node_slots.push(id);
                    w.all_node_ids.insert(id);
                    let labels: BTreeSet<String> = [label.to_string()].into_iter().collect();
                    let mut mp = BTreeMap::new();
                    mp.insert("k".to_string(), SV::Int(*v));
                    applied_both(&mut w, &|g| { g.nodes.insert(id, MNode { labels: labels.clone(), props: mp.clone() }); }, logged);
                }
                Op::QuerySet(s, k, v) => {
                    if let Some(&id) = w.node_slots.get(*s) {
                        if w.model.nodes.contains_key(&id) {
                            let key = KEYS[*k as usize % 3];
                            let sess = db.session();
                            sess.execute(&format!("MATCH (n) WHERE id(n) = {id} SET n.{key} = {v}")).map_err(|e| format!("query set failed: {e}"))?;
                            applied_both(&mut w, &|g| { if let Some(n) = g.nodes.get_mut(&id) { n.props.insert(key.to_string(), SV::Int(*v)); } }, logged);
                        }
                    }
                }
                Op::Checkpoint => {
                    db.wal_checkpoint().map_err(|e| format!("wal_checkpoint failed: {e}"))?;
                }
                Op::Rotate => {
                    if let Some(wal) = db.wal() {
                        wal.rotate().map_err(|e| format!("rotate failed: {e}"))?;
                    }
                }
                Op::Sync => {
                    if let Some(wal) = db.wal() {
                        wal.sync().map_err(|e| format!("sync failed: {e}"))?;
                    }
                }
                Op::Flush => {
                    if let Some(wal) = db.wal() {
                        wal.flush().map_err(|e| format!("flush failed: {e}"))?;
                    }
                }
                Op::ClockAdvance(ms) => {
                    w.tap.clock.set(w.tap.clock.get() + ms * 1_000_000);
                }
                Op::CloseReopen | Op::DropReopen | Op::Crash { .. } | Op::BitFlip { .. } => {}
            }
            Ok(())
        })
        .unwrap_or_else(|p| Err(format!("panic: {p}")));
        w.db = Some(db_owned);
        if let Err(e) = res {
            if e == "as-is:older-file-flip" {
                let prop = w.prop.clone();
                w.findings.push((
                    format!("{prop} | bitflip-in-older-log-file | not-a-prefix | recovery-faithful-to-log"),
                    format!("step {i}: {} answered with a stray property value that later log files carried for a node whose creation was lost with the flipped record", op.kind()),
                ));
                break 'ops;
            }
            if e == "as-is:unlogged" {
                let kinds: Vec<&str> = w.unlogged_seen.iter().copied().collect();
                for k in kinds {
                    w.find(
                        format!("{} | unlogged-mutation-lost | kind={k}", w.prop),
                        format!("step {i}: {} answered as the as-is model (unlogged mutations skipped, stray property values kept) predicts", op.kind()),
                    );
                }
                break 'ops;
            }
            let class = if e.starts_with("id-collision") {
                "id-collision".to_string()
            } else if e.starts_with("panic") {
                format!("panic | {}", panic_class(&e))
            } else {
                "api-result".to_string()
            };
            w.find(format!("{} | op={} | {class}", w.prop, op.kind()), format!("step {i}: {e}"));
            break 'ops;
        }
        // bookkeeping after the op
        let rc = w.db.as_ref().and_then(|d| d.wal().map(|x| x.record_count())).unwrap_or(0);
        w.inc.recs_after.push(rc);
        w.snaps.push((w.model.clone(), w.model_logged.clone()));
        if w.dirty_armed && rc > 0 {
            w.dirty_tail = true;
        }
        if w.pending_armed && matches!(op, Op::Checkpoint | Op::CloseReopen | Op::DropReopen | Op::BitFlip { .. }) {
            w.pending_at_open = true;
        }
        if matches!(op, Op::Checkpoint) {
            w.ops_at_last_ckpt = i + 1;
            w.p("checkpoint");
            let n = w.tap.events.borrow().len();
            w.api_marks.push((n, i + 1, "checkpoint"));
            w.check_written_bytes_durable("wal_checkpoint", i);
        }
        if matches!(op, Op::Sync) {
            let n = w.tap.events.borrow().len();
            w.api_marks.push((n, i + 1, "sync"));
            w.check_written_bytes_durable("sync", i);
        }
        if matches!(op, Op::Rotate) {
            w.p("rotation_explicit");
        }
        steps_done = i + 1;
        digest = digest.rotate_left(9) ^ fnv(op.kind().as_bytes()) ^ rc ^ ((w.tap.events.borrow().len() as u64) << 20);
        w.log.push(format!("{i}: {} recs={rc} events={}", op.kind(), w.tap.events.borrow().len()));

        // restart-type ops
        match op {
            Op::CloseReopen | Op::DropReopen | Op::BitFlip { .. } => {
                // crash probes of this incarnation first (they include crashes inside the
                // close itself only when taken after it; so probe, then close, then probe)
                let issued = i + 1;
                let n_probe = w.cfg.probes_per_incarnation;
                let db = w.db.take().unwrap();
                let closed = guarded(|| {
                    if matches!(op, Op::CloseReopen | Op::BitFlip { .. }) {
                        db.close().map_err(|e| e.to_string())?;
                    }
                    drop(db);
                    Ok::<(), String>(())
                });
                match closed {
                    Ok(Ok(())) => {}
                    Ok(Err(e)) => {
                        w.find(format!("{} | close | failed", w.prop), format!("step {i}: {e}"));
                        break 'ops;
                    }
                    Err(p) => {
                        w.find(format!("{} | close | panic | {}", w.prop, panic_class(&p)), format!("step {i}: {p}"));
                        break 'ops;
                    }
                }
                {
                    let n = w.tap.events.borrow().len();
                    w.api_marks.push((n, issued, "close"));
                    w.check_written_bytes_durable("close", i);
                }
                let evs = w.events_of_inc();
                if w.prop == "C06" && n_probe > 0 && !evs.is_empty() {
                    for _ in 0..n_probe {
                        // bias: half of the probes land inside the final close/checkpoint
                        let close_start = evs.iter().position(|e| e.op == i).unwrap_or(evs.len());
                        let k = if probe_rng.chance(1, 2) && close_start < evs.len() {
                            close_start + probe_rng.usize(evs.len() - close_start + 1)
                        } else {
                            probe_rng.usize(evs.len() + 1)
                        };
                        let seed = probe_rng.next_u64();
                        w.probe_image(&evs, k, seed, issued);
                        if k > close_start {
                            w.p("crash_inside_close_or_checkpoint");
                        }
                        if !w.findings.is_empty() {
                            break 'ops;
                        }
                    }
                }
                w.ops_at_last_close = issued;
                let dir = w.inc.dir.clone();
                let mut flipped_not_last = false;
                if let Op::BitFlip { file_pick, bit_pick } = op {
                    let wal = dir.join("wal");
                    let mut logs: Vec<PathBuf> = std::fs::read_dir(&wal)
                        .map(|rd| rd.flatten().map(|e| e.path()).filter(|p| p.extension().is_some_and(|x| x == "log")).collect())
                        .unwrap_or_default();
                    logs.sort();
                    logs.retain(|p| std::fs::metadata(p).map(|m| m.len() > 0).unwrap_or(false));
                    if !logs.is_empty() {
                        let fi = *file_pick as usize % logs.len();
                        flipped_not_last = fi + 1 < logs.len();
                        if flipped_not_last {
                            w.older_file_flipped = true;
                        }
                        let f = &logs[fi];
                        let mut bytes = std::fs::read(f).unwrap();
                        // a bit that this run has flipped already is not flipped back: that would
                        // not be a second fault but the repair of the first one (the records behind
                        // it become readable again)
                        let total = bytes.len() * 8;
                        let mut bit = *bit_pick as usize % total;
                        let name = rel(f);
                        let mut tries = 0;
                        while w.flipped_bits.contains(&(name.clone(), bit)) && tries < total {
                            bit = (bit + 1) % total;
                            tries += 1;
                        }
                        w.flipped_bits.insert((name, bit));
                        bytes[bit / 8] ^= 1 << (bit % 8);
                        std::fs::write(f, &bytes).unwrap();
                        w.fault("bitflip");
                        w.log.push(format!("   bitflip {} bit {bit}", rel(f)));
                    }
                }
                reopens += 1;
                if let Err(e) = w.open(dir, i + 1) {
                    let ctx = if matches!(op, Op::BitFlip { .. }) { "bitflip" } else { "reopen" };
                    w.find(format!("{} | {ctx} | open-failed", w.prop), format!("step {i}: {e}"));
                    break 'ops;
                }
                let got = match dump(w.db.as_ref().unwrap(), &w.all_node_ids.clone(), &w.all_edge_ids.clone()) {
                    Ok(g) => g,
                    Err(e) => {
                        w.find(format!("{} | reopen | access-paths-disagree-after-recovery", w.prop), format!("step {i}: {e}"));
                        break 'ops;
                    }
                };
                if matches!(op, Op::BitFlip { .. }) {
                    // one flipped bit invalidates at most one record; everything before it in
                    // that file must survive, nothing invalid may be applied: the state must
                    // still be some prefix (floor 0), and the run continues from it.
                    let ctx = if flipped_not_last { "bitflip-in-older-log-file" } else { "bitflip" };
                    let p = w.judge_recovered(&got, 0, issued, ctx, false, 0);
                    match p {
                        Some(p) if w.findings.is_empty() => {
                            w.p("bitflip_recovered_to_prefix");
                            w.faulted = "bitflip";
                            let (m, ml) = if p == 0 { (RefGraph::default(), RefGraph::default()) } else { w.snaps[p - 1].clone() };
                            w.model = m;
                            w.model_logged = ml;
                            // stray property values that the recovery itself produced (records of
                            // later files applied although the record that created their node was
                            // lost with the flipped one) are part of the as-is view from here on
                            if let Some(v) = &w.log_view {
                                for (id, kv) in &v.orphans {
                                    if !w.model_logged.nodes.contains_key(id) {
                                        w.model_logged.orphans.entry(*id).or_default().extend(kv.clone());
                                    }
                                }
                            }
                            for s in p..w.snaps.len() {
                                w.snaps[s] = (w.model.clone(), w.model_logged.clone());
                            }
                            w.ops_at_last_close = w.ops_at_last_close.min(p);
                            w.ops_at_last_ckpt = w.ops_at_last_ckpt.min(p);
                            for m in w.api_marks.iter_mut() {
                                m.1 = m.1.min(p);
                            }
                            if p < issued {
                                w.p("bitflip_lost_records");
                            }
                        }
                        _ => break 'ops,
                    }
                } else {
                    let ctx = match w.faulted { "" => "reopen", "crash" => "reopen-after-crash", _ => "reopen-after-bitflip" };
                    w.judge_recovered(&got, issued, issued, ctx, true, usize::MAX);
                    if !w.findings.is_empty() {
                        break 'ops;
                    }
                    w.p("clean_reopen_equal");
                }
            }
            Op::Crash { pick, img_seed } => {
                let issued = i + 1;
                let evs = w.events_of_inc();
                let k = (evs.len() * (*pick as usize % 1001)) / 1000;
                let mut img = Prng::new(*img_seed);
                let floor = w.floor_sync(&evs, k);
                let issued_k = evs.get(k.saturating_sub(1)).map_or(w.inc.first_op, |e| e.op + 1).min(issued).max(floor);
                let crash_abs = w.inc.ev_start + k;
                let (dir, desc) = w.build_image(&evs, k, &mut img);
                w.fault("crash_continued");
                w.log.push(format!("   crash after event {k}/{} floor={floor} issued={issued_k} [{desc}]", evs.len()));
                // the old incarnation dies: whatever Drop writes goes to the old directory
                w.tap.recording.set(false);
                let old = w.db.take();
                let _ = guarded(|| drop(old));
                w.tap.recording.set(true);
                crashes += 1;
                if let Err(e) = w.open(dir, i + 1) {
                    w.find(format!("{} | crash | open-failed", w.prop), format!("step {i} [{desc}]: {e}"));
                    break 'ops;
                }
                let got = match dump(w.db.as_ref().unwrap(), &w.all_node_ids.clone(), &w.all_edge_ids.clone()) {
                    Ok(g) => g,
                    Err(e) => {
                        w.find(format!("{} | crash | access-paths-disagree-after-recovery", w.prop), format!("step {i}: {e}"));
                        break 'ops;
                    }
                };
                let p = w.judge_recovered(&got, floor, issued_k, "crash", false, crash_abs);
                match p {
                    Some(p) if w.findings.is_empty() => {
                        // continuation: the model continues from the recovered prefix
                        let (m, ml) = if p == 0 { (RefGraph::default(), RefGraph::default()) } else { w.snaps[p - 1].clone() };
                        w.model = m;
                        w.model_logged = ml;
                        w.ops_at_last_close = w.ops_at_last_close.min(p);
                        w.ops_at_last_ckpt = w.ops_at_last_ckpt.min(p);
                        for m in w.api_marks.iter_mut() {
                            m.1 = m.1.min(p);
                        }
                        // snapshots of lost operations are replaced so that later prefixes
                        // are measured against the continued history
                        for s in p..w.snaps.len() {
                            w.snaps[s] = (w.model.clone(), w.model_logged.clone());
                        }
                        w.p("crash_recovered_and_continued");
                        if w.faulted.is_empty() {
                            w.faulted = "crash";
                        }
                    }
                    _ => break 'ops,
                }
            }
            _ => {}
        }
    }

    // end of history: final crash probes, then a clean close + reopen check
    if w.findings.is_empty() && w.db.is_some() {
        let issued = steps_done;
        w.tap.cur_op.set(ops.len());
        if w.prop == "C06" {
            let evs = w.events_of_inc();
            for _ in 0..w.cfg.probes_per_incarnation {
                if evs.is_empty() {
                    break;
                }
                let k = probe_rng.usize(evs.len() + 1);
                let seed = probe_rng.next_u64();
                w.probe_image(&evs, k, seed, issued);
                if !w.findings.is_empty() {
                    break;
                }
            }
        }
        if w.findings.is_empty() {
            if w.pending_armed {
                w.pending_at_open = true;
            }
            if w.dirty_armed {
                w.dirty_tail = true;
            }
            let db = w.db.take().unwrap();
            let closed = guarded(|| db.close().map_err(|e| e.to_string()).map(|()| drop(db)));
            match closed {
                Ok(Ok(())) => {
                    let dir = w.inc.dir.clone();
                    if let Err(e) = w.open(dir, ops.len()) {
                        w.find(format!("{} | reopen | open-failed", w.prop), format!("final: {e}"));
                    } else {
                        match dump(w.db.as_ref().unwrap(), &w.all_node_ids.clone(), &w.all_edge_ids.clone()) {
                            Ok(g) => {
                                let ctx = match w.faulted { "" => "reopen", "crash" => "reopen-after-crash", _ => "reopen-after-bitflip" };
                                w.judge_recovered(&g, issued, issued, ctx, true, usize::MAX);
                                if w.findings.is_empty() {
                                    w.p("clean_reopen_equal");
                                    if crashes > 0 {
                                        w.p("continuation_after_crash_survived_reopen");
                                    }
                                }
                            }
                            Err(e) => w.find(format!("{} | reopen | access-paths-disagree-after-recovery", w.prop), format!("final: {e}")),
                        }
                    }
                }
                Ok(Err(e)) => w.find(format!("{} | close | failed", w.prop), format!("final: {e}")),
                Err(p) => w.find(format!("{} | close | panic | {}", w.prop, panic_class(&p)), format!("final: {p}")),
            }
        }
    }
    // teardown
    w.tap.recording.set(false);
    let last = w.db.take();
    let _ = guarded(|| drop(last));
    let evs_all = w.tap.events.borrow().clone();
    let mut n_rot = 0;
    for e in &evs_all {
        if let FsEvent::Open { path, existed: false, .. } = &e.kind {
            if seq_of(&rel(path)).is_some_and(|s| s > 0) {
                n_rot += 1;
            }
        }
    }
    if n_rot > 0 {
        *w.probes.entry("rotation_happened").or_insert(0) += n_rot;
    }
    let sim_ms = (w.tap.clock.get() - 1_000_000_000) / 1_000_000;
    let nontrivial = steps_done >= 2 && (reopens + crashes > 0 || ops.iter().any(|o| o.is_mutation()));
    let res = ExecResult {
        findings: std::mem::take(&mut w.findings),
        probes: std::mem::take(&mut w.probes),
        faults: std::mem::take(&mut w.faults),
        steps_done,
        nontrivial,
        digest,
        sim_ms,
        log: std::mem::take(&mut w.log),
    };
    drop(w);
    if std::env::var("VERIF_KEEP").is_err() {
        let _ = std::fs::remove_dir_all(&root);
    } else {
        eprintln!("kept {}", root.display());
    }
    res
}

pub fn generate(rng: &mut Prng, property: &str, thorough: bool) -> (Config, Vec<Op>) {
    let c06 = property == "C06";
    let durability = match rng.below(5) {
        0 => Dur::Sync,
        1 => Dur::Batch { max_delay_ms: 100, max_records: 1000 },
        2 => Dur::Batch { max_delay_ms: *rng.pick(&[0, 1, 5, 100]), max_records: *rng.pick(&[1, 2, 3, 1000]) },
        3 => Dur::Adaptive,
        _ => Dur::NoSync,
    };
    let max_log_size = if rng.chance(1, 2) { Some(*rng.pick(&[64u64, 100, 200, 400, 1000, 4096])) } else { None };
    let bufwriter_capacity = if rng.chance(1, 2) { Some(*rng.pick(&[1u64, 7, 16, 64, 300])) } else { None };
    let exotic = rng.chance(1, 3);
    // a few runs write values whose log record is far larger than any buffer or size limit
    // (5 kB, 70 kB, 1.1 MB)
    let big_on = rng.chance(1, 30);
    let len = rng.range(2, if thorough { 40 } else { 24 }) as usize;
    // swarm: which op kinds are enabled in this run
    let unlogged_on = rng.chance(1, 4);
    let query_on = rng.chance(1, 5);
    let ckpt_on = rng.chance(1, 2);
    let rotate_on = rng.chance(1, 3);
    let crash_on = c06 && rng.chance(2, 3);
    let bitflip_on = c06 && rng.chance(1, 5);
    let mut ops = Vec::new();
    let (mut nn, mut ne) = (0usize, 0usize);
    let mut uniq = 0u64;
    while ops.len() < len {
        uniq += 1;
        let props = |rng: &mut Prng, uniq: u64| -> Vec<(u8, SV)> {
            (0..rng.range(0, 3)).map(|i| (rng.below(3) as u8, gen_value(rng, uniq * 4 + i, exotic))).collect()
        };
        let op = match rng.below(30) {
            0 | 1 => { nn += 1; Op::CreateNode((0..rng.range(0, 2)).map(|_| rng.below(3) as u8).collect()) }
            2 | 3 => { nn += 1; Op::CreateNodeProps((0..rng.range(0, 2)).map(|_| rng.below(3) as u8).collect(), props(rng, uniq)) }
            4 if exotic => { let n = rng.range(1, 2); nn += n as usize; Op::BatchCreate(rng.below(3) as u8, (0..n).map(|j| (0..rng.below(3)).map(|x| ((uniq + j + x) as f32).to_bits()).collect()).collect()) }
            5 if nn > 0 => Op::DeleteNode(rng.usize(nn)),
            6 if nn > 0 && big_on => Op::SetNodeProp(rng.usize(nn), rng.below(3) as u8, SV::BigStr(*rng.pick(&[5_000u32, 70_000, 70_000, 1_100_000]), b'a' + (uniq % 26) as u8)),
            6 | 7 | 8 if nn > 0 => Op::SetNodeProp(rng.usize(nn), rng.below(3) as u8, gen_value(rng, uniq * 4, exotic)),
            9 if nn > 0 && unlogged_on => Op::RemoveNodeProp(rng.usize(nn), rng.below(3) as u8),
            10 if nn > 0 => Op::AddLabel(rng.usize(nn), rng.below(3) as u8),
            11 if nn > 0 => Op::RemoveLabel(rng.usize(nn), rng.below(3) as u8),
            12 | 13 if nn > 0 => { ne += 1; Op::CreateEdge(rng.usize(nn), rng.usize(nn), rng.below(2) as u8) }
            14 if nn > 0 => { ne += 1; Op::CreateEdgeProps(rng.usize(nn), rng.usize(nn), rng.below(2) as u8, props(rng, uniq)) }
            15 if ne > 0 => Op::DeleteEdge(rng.usize(ne)),
            16 if ne > 0 => Op::SetEdgeProp(rng.usize(ne), rng.below(3) as u8, gen_value(rng, uniq * 4, exotic)),
            17 if ne > 0 && unlogged_on => Op::RemoveEdgeProp(rng.usize(ne), rng.below(3) as u8),
            18 if query_on => { nn += 1; Op::QueryInsert(rng.below(3) as u8, uniq as i64) }
            19 if query_on && nn > 0 => Op::QuerySet(rng.usize(nn), rng.below(3) as u8, uniq as i64),
            20 if ckpt_on => Op::Checkpoint,
            21 if rotate_on => Op::Rotate,
            22 => Op::Sync,
            23 => Op::Flush,
            24 => Op::ClockAdvance(*rng.pick(&[0, 1, 50, 101, 3_600_000])),
            25 => Op::CloseReopen,
            26 => if rng.chance(1, 2) { Op::DropReopen } else { Op::CloseReopen },
            27 | 28 if crash_on => Op::Crash { pick: rng.below(1001) as u16, img_seed: rng.next_u64() },
            29 if bitflip_on => Op::BitFlip { file_pick: rng.below(8) as u16, bit_pick: rng.next_u64() as u32 },
            _ => continue,
        };
        ops.push(op);
    }
    (
        Config {
            property: property.to_string(),
            durability,
            max_log_size,
            bufwriter_capacity,
            probes_per_incarnation: if c06 { if thorough { 12 } else { 6 } } else { 0 },
            probe_seed: rng.next_u64(),
        },
        ops,
    )
}

fn run_guarded(cfg: &Config, ops: &[Op], tag: &str) -> ExecResult {
    match guarded(|| exec(cfg, ops, tag)) {
        Ok(r) => r,
        Err(msg) => {
            verif::install(None);
            ExecResult {
                findings: vec![(format!("{} | harness-panic | {}", cfg.property, panic_class(&msg)), msg)],
                probes: BTreeMap::new(),
                faults: BTreeMap::new(),
                steps_done: 0,
                nontrivial: false,
                digest: 0,
                sim_ms: 0,
                log: vec![],
            }
        }
    }
}

pub fn replay_doc(cfg: &Config, ops: &[Op], tag: &str) -> serde_json::Value {
    json!({"engine": "DISK", "config": cfg, "ops": ops, "tag": tag, "schedule": null,
           "faults": ops.iter().filter(|o| matches!(o, Op::Crash{..} | Op::BitFlip{..})).collect::<Vec<_>>()})
}

pub fn run_one(seed: u64, idx: u64, property: &'static str, thorough: bool) -> RunOut {
    let mut rng = Prng::new(seed);
    let (cfg, ops) = generate(&mut rng, property, thorough);
    let tag = format!("{property}-{idx}-{seed:x}");
    let res = run_guarded(&cfg, &ops, &tag);
    let mut out = RunOut::default();
    out.hash = fnv(&serde_json::to_vec(&(&cfg, &ops)).unwrap());
    out.shape = fnv(ops.iter().map(|o| o.kind()).collect::<Vec<_>>().join(",").as_bytes());
    out.nontrivial = res.nontrivial;
    out.steps = res.steps_done as u64;
    out.sim_ms = res.sim_ms;
    out.probes = res.probes;
    out.faults = res.faults;
    out.digest = res.digest;
    if ops.len() <= 14 {
        out.sample = Some(json!({"seed": seed, "config": cfg, "ops": ops, "log": res.log}));
    }
    for (sig, detail) in res.findings {
        out.findings.push(Finding { property: property.to_string(), signature: sig, detail, replay: replay_doc(&cfg, &ops, &tag) });
    }
    out
}

pub fn minimise(f: &Finding) -> Finding {
    let cfg: Config = serde_json::from_value(f.replay["config"].clone()).unwrap();
    let ops: Vec<Op> = serde_json::from_value(f.replay["ops"].clone()).unwrap();
    let tag = format!("{}-min", f.replay["tag"].as_str().unwrap_or("t"));
    let sig = f.signature.clone();
    let mut fails = |cand: &[Op]| run_guarded(&cfg, cand, &tag).findings.iter().any(|(s, _)| *s == sig);
    let small = if fails(&ops) { crate::fw::ddmin(&ops, &mut fails, 300) } else { ops.clone() };
    // simplify the configuration where the failure does not depend on it
    let mut cfg2 = cfg.clone();
    let c = Config { bufwriter_capacity: None, ..cfg2.clone() };
    if run_guarded(&c, &small, &tag).findings.iter().any(|(s, _)| *s == sig) {
        cfg2 = c;
    }
    let c = Config { max_log_size: None, ..cfg2.clone() };
    if run_guarded(&c, &small, &tag).findings.iter().any(|(s, _)| *s == sig) {
        cfg2 = c;
    }
    let res = run_guarded(&cfg2, &small, &tag);
    let detail = res.findings.iter().find(|(s, _)| *s == sig).map(|(_, d)| d.clone()).unwrap_or_else(|| f.detail.clone());
    let mut doc = replay_doc(&cfg2, &small, &tag);
    doc["log"] = json!(res.log);
    doc["original_len"] = json!(ops.len());
    Finding { property: f.property.clone(), signature: sig, detail, replay: doc }
}

pub fn replay(doc: &serde_json::Value) -> Vec<(String, String)> {
    let cfg: Config = serde_json::from_value(doc["config"].clone()).unwrap();
    let ops: Vec<Op> = serde_json::from_value(doc["ops"].clone()).unwrap();
    let tag = doc["tag"].as_str().unwrap_or("replay").to_string();
    let res = run_guarded(&cfg, &ops, &tag);
    for l in &res.log {
        println!("  {l}");
    }
    res.findings
}
