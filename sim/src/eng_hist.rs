//! HIST — multi-session history simulator (C01, C02; session layers of C03).
//!
//! The simulator owns every session of one in-memory `GrafeoDB` on one OS thread and
//! decides, from the run's PRNG, which session acts next and what it does. Three systems
//! run in lock-step on the same history:
//!   * the database under test (`/repo` working tree),
//!   * `RefMvcc`, the executable specification (snapshot isolation over a tiny graph),
//!   * the *pinned twin*: an unmodified copy of the tree at the pinned commit
//!     (`/verif/pinned`), used **only** to classify a deviation from the specification as
//!     "what the pinned tree already did" (known finding, by signature) or as new.
//! Entities are addressed by slots; every observation is normalised from ids to slots.

use std::collections::{BTreeMap, BTreeSet};

use serde::{Deserialize, Serialize};
use serde_json::json;

use crate::fw::{Finding, RunOut, guarded, panic_class};
use crate::prng::{Prng, fnv};

pub const LABELS: [&str; 3] = ["A", "B", "C"];
pub const KEYS: [&str; 2] = ["k", "m"];
pub const N_TRIPLES: u8 = 4;

#[derive(Clone, Debug, PartialEq, Serialize, Deserialize)]
pub enum HOp {
    Begin(usize),
    Commit(usize),
    Rollback(usize),
    /// Drops the session object (with whatever transaction it has open) and opens a new one.
    DropSession(usize),
    // ---- mutations through a session ----
    CreateNode(usize, Vec<u8>),
    CreateNodeProps(usize, Vec<u8>, u8, i64),
    InsertQ(usize, u8, u8, i64),
    CreateEdge(usize, usize, usize),
    CreateEdgeQ(usize, usize, usize, i64),
    SetPropQ(usize, usize, u8, i64),
    SetEdgePropQ(usize, usize, i64),
    RemovePropQ(usize, usize, u8),
    AddLabelQ(usize, usize, u8),
    RemoveLabelQ(usize, usize, u8),
    DeleteNodeQ(usize, usize),
    TripleInsert(usize, u8),
    TripleDelete(usize, u8),
    // ---- mutations through the GrafeoDB direct API (auto-commit) ----
    DbCreateNode(Vec<u8>),
    DbSetProp(usize, u8, i64),
    DbDeleteEdge(usize),
    DbAddLabel(usize, u8),
    // ---- observations ----
    LabelScan(usize, u8),
    AllScan(usize),
    Expand(usize),
    Count(usize),
    GetNode(usize, usize),
    GetEdge(usize, usize),
    NodeExists(usize, usize),
    NodesBatch(usize, Vec<usize>),
    NeighborsOut(usize, usize),
    Triples(usize),
    DbCounts,
    DbIterNodes,
    // ---- further access paths (other query languages, aggregates, direct accessors) ----
    CypherLabelScan(usize, u8),
    ParamsLabelScan(usize, u8),
    GremlinLabel(usize, u8),
    GremlinOut(usize),
    GraphqlLabel(usize, u8),
    SumCount(usize),
    FilterGt(usize, i64),
    EdgeCount(usize),
    GetNodeProp(usize, usize, u8),
    NeighborsIn(usize, usize),
    NeighborsOutByType(usize, usize),
    EdgeExists(usize, usize),
    Degree(usize, usize),
    TriplesBySubject(usize, u8),
    DbIterEdges,
    DbGetNode(usize),
    /// two-hop chain (factorized expand); an edge may be used for both hops, as the engine does
    TwoHop(usize),
    /// aggregates directly over a two-hop chain (factorized aggregate path of the planner)
    TwoHopCount(usize),
    TwoHopSum(usize),
    // ---- further mutation routes ----
    CypherCreate(usize, u8, u8, i64),
    /// not generated: on this tree `MATCH ()-[r]->() WHERE id(r) = x DELETE r` deletes the *node*
    /// whose id equals the edge's (both translators emit DeleteNode for every DELETE variable);
    /// recorded in DESIGN.md as an observation outside the listed properties
    DeleteEdgeQ(usize, usize),
    /// plain (non-detach) DELETE of a node that has no incident edge in the writer's view
    DeleteNodePlainQ(usize, usize),
    /// `MATCH (a) WHERE id(a) = x CREATE (a)-[:R {k: v}]->(:L {k: v})`: a CREATE fed by an input
    /// operator that makes a node *and* an edge per matched row (session, anchor, label, value)
    MatchCreatePathQ(usize, usize, u8, i64),
}

impl HOp {
    pub fn kind(&self) -> &'static str {
        match self {
            HOp::Begin(_) => "begin",
            HOp::Commit(_) => "commit",
            HOp::Rollback(_) => "rollback",
            HOp::DropSession(_) => "drop_session",
            HOp::CreateNode(..) => "session.create_node",
            HOp::CreateNodeProps(..) => "session.create_node_with_props",
            HOp::InsertQ(..) => "INSERT",
            HOp::CreateEdge(..) => "session.create_edge",
            HOp::CreateEdgeQ(..) => "MATCH-CREATE-edge",
            HOp::SetPropQ(..) => "SET-property",
            HOp::SetEdgePropQ(..) => "SET-edge-property",
            HOp::RemovePropQ(..) => "REMOVE-property",
            HOp::AddLabelQ(..) => "SET-label",
            HOp::RemoveLabelQ(..) => "REMOVE-label",
            HOp::DeleteNodeQ(..) => "DETACH-DELETE",
            HOp::TripleInsert(..) => "INSERT-DATA",
            HOp::TripleDelete(..) => "DELETE-DATA",
            HOp::DbCreateNode(_) => "db.create_node",
            HOp::DbSetProp(..) => "db.set_node_property",
            HOp::DbDeleteEdge(_) => "db.delete_edge",
            HOp::DbAddLabel(..) => "db.add_node_label",
            HOp::LabelScan(..) => "label-scan",
            HOp::AllScan(_) => "unlabelled-scan",
            HOp::Expand(_) => "expand",
            HOp::Count(_) => "count",
            HOp::GetNode(..) => "get_node",
            HOp::GetEdge(..) => "get_edge",
            HOp::NodeExists(..) => "node_exists",
            HOp::NodesBatch(..) => "get_nodes_batch",
            HOp::NeighborsOut(..) => "get_neighbors_outgoing",
            HOp::Triples(_) => "sparql-pattern",
            HOp::DbCounts => "db.node_count/edge_count",
            HOp::DbIterNodes => "db.iter_nodes",
            HOp::CypherLabelScan(..) => "cypher-label-scan",
            HOp::ParamsLabelScan(..) => "params-label-scan",
            HOp::GremlinLabel(..) => "gremlin-hasLabel",
            HOp::GremlinOut(_) => "gremlin-out",
            HOp::GraphqlLabel(..) => "graphql-label",
            HOp::SumCount(_) => "aggregate-sum-count",
            HOp::FilterGt(..) => "filter-scan",
            HOp::EdgeCount(_) => "count-edges",
            HOp::GetNodeProp(..) => "get_node_property",
            HOp::NeighborsIn(..) => "get_neighbors_incoming",
            HOp::NeighborsOutByType(..) => "get_neighbors_outgoing_by_type",
            HOp::EdgeExists(..) => "edge_exists",
            HOp::Degree(..) => "get_degree",
            HOp::TriplesBySubject(..) => "sparql-bound-subject",
            HOp::DbIterEdges => "db.iter_edges",
            HOp::DbGetNode(_) => "db.get_node",
            HOp::TwoHop(_) => "two-hop",
            HOp::TwoHopCount(_) => "two-hop-count",
            HOp::TwoHopSum(_) => "two-hop-sum",
            HOp::CypherCreate(..) => "cypher-CREATE",
            HOp::DeleteEdgeQ(..) => "DELETE-edge",
            HOp::DeleteNodePlainQ(..) => "DELETE-node",
            HOp::MatchCreatePathQ(..) => "MATCH-CREATE-path",
        }
    }
    pub fn is_observation(&self) -> bool {
        matches!(
            self,
            HOp::LabelScan(..)
                | HOp::AllScan(_)
                | HOp::Expand(_)
                | HOp::Count(_)
                | HOp::GetNode(..)
                | HOp::GetEdge(..)
                | HOp::NodeExists(..)
                | HOp::NodesBatch(..)
                | HOp::NeighborsOut(..)
                | HOp::Triples(_)
                | HOp::DbCounts
                | HOp::DbIterNodes
                | HOp::CypherLabelScan(..)
                | HOp::ParamsLabelScan(..)
                | HOp::GremlinLabel(..)
                | HOp::GremlinOut(_)
                | HOp::GraphqlLabel(..)
                | HOp::SumCount(_)
                | HOp::FilterGt(..)
                | HOp::EdgeCount(_)
                | HOp::GetNodeProp(..)
                | HOp::NeighborsIn(..)
                | HOp::NeighborsOutByType(..)
                | HOp::EdgeExists(..)
                | HOp::Degree(..)
                | HOp::TriplesBySubject(..)
                | HOp::DbIterEdges
                | HOp::DbGetNode(_)
                | HOp::TwoHop(_)
                | HOp::TwoHopCount(_)
                | HOp::TwoHopSum(_)
        )
    }
    fn session(&self) -> Option<usize> {
        match self {
            HOp::Begin(s) | HOp::Commit(s) | HOp::Rollback(s) | HOp::DropSession(s) => Some(*s),
            HOp::CreateNode(s, _) | HOp::CreateNodeProps(s, ..) | HOp::InsertQ(s, ..) | HOp::CreateEdge(s, ..) | HOp::CreateEdgeQ(s, ..) => Some(*s),
            HOp::SetPropQ(s, ..) | HOp::SetEdgePropQ(s, ..) | HOp::RemovePropQ(s, ..) | HOp::AddLabelQ(s, ..) | HOp::RemoveLabelQ(s, ..) | HOp::DeleteNodeQ(s, ..) => Some(*s),
            HOp::TripleInsert(s, _) | HOp::TripleDelete(s, _) => Some(*s),
            HOp::LabelScan(s, _) | HOp::AllScan(s) | HOp::Expand(s) | HOp::Count(s) | HOp::GetNode(s, _) | HOp::GetEdge(s, _) | HOp::NodeExists(s, _) | HOp::NodesBatch(s, _) | HOp::NeighborsOut(s, _) | HOp::Triples(s) => Some(*s),
            HOp::CypherLabelScan(s, _) | HOp::ParamsLabelScan(s, _) | HOp::GremlinLabel(s, _) | HOp::GremlinOut(s) | HOp::GraphqlLabel(s, _) | HOp::SumCount(s) | HOp::FilterGt(s, _) | HOp::EdgeCount(s) | HOp::TwoHop(s) | HOp::TwoHopCount(s) | HOp::TwoHopSum(s) => Some(*s),
            HOp::GetNodeProp(s, ..) | HOp::NeighborsIn(s, _) | HOp::NeighborsOutByType(s, _) | HOp::EdgeExists(s, _) | HOp::Degree(s, _) | HOp::TriplesBySubject(s, _) => Some(*s),
            HOp::CypherCreate(s, ..) | HOp::DeleteEdgeQ(s, _) | HOp::DeleteNodePlainQ(s, _) | HOp::MatchCreatePathQ(s, ..) => Some(*s),
            _ => None,
        }
    }
}

fn triple_text(t: u8) -> (String, String, String) {
    (format!("http://s{}", t & 1), format!("http://p{}", (t >> 1) & 1), format!("o{t}"))
}

// ------------------------------------------------------------------------------------------
// The specification: snapshot isolation over a tiny graph.
// ------------------------------------------------------------------------------------------

#[derive(Clone, Debug, Default, PartialEq, Eq)]
pub struct SNode {
    pub labels: BTreeSet<String>,
    pub props: BTreeMap<String, i64>,
}

#[derive(Clone, Debug, PartialEq, Eq)]
pub struct SEdge {
    pub src: usize,
    pub dst: usize,
    pub k: Option<i64>,
}

#[derive(Clone, Debug, Default, PartialEq, Eq)]
pub struct SState {
    pub nodes: BTreeMap<usize, SNode>,
    pub edges: BTreeMap<usize, SEdge>,
    pub triples: BTreeSet<u8>,
}

#[derive(Clone, Debug)]
pub enum W {
    CreateNode(usize, Vec<String>, Vec<(String, i64)>),
    CreateEdge(usize, usize, usize, Option<i64>),
    SetProp(usize, String, i64),
    SetEdgeProp(usize, i64),
    RemoveProp(usize, String),
    AddLabel(usize, String),
    RemoveLabel(usize, String),
    DetachDelete(usize),
    DeleteEdge(usize),
    TripleIns(u8),
    TripleDel(u8),
}

impl SState {
    pub fn apply(&mut self, w: &W) {
        match w {
            W::CreateNode(s, ls, ps) => {
                self.nodes.insert(*s, SNode { labels: ls.iter().cloned().collect(), props: ps.iter().cloned().collect() });
            }
            W::CreateEdge(e, a, b, k) => {
                if self.nodes.contains_key(a) && self.nodes.contains_key(b) {
                    self.edges.insert(*e, SEdge { src: *a, dst: *b, k: *k });
                }
            }
            W::SetProp(s, k, v) => {
                if let Some(n) = self.nodes.get_mut(s) {
                    n.props.insert(k.clone(), *v);
                }
            }
            W::SetEdgeProp(e, v) => {
                if let Some(x) = self.edges.get_mut(e) {
                    x.k = Some(*v);
                }
            }
            W::RemoveProp(s, k) => {
                if let Some(n) = self.nodes.get_mut(s) {
                    n.props.remove(k);
                }
            }
            W::AddLabel(s, l) => {
                if let Some(n) = self.nodes.get_mut(s) {
                    n.labels.insert(l.clone());
                }
            }
            W::RemoveLabel(s, l) => {
                if let Some(n) = self.nodes.get_mut(s) {
                    n.labels.remove(l);
                }
            }
            W::DetachDelete(s) => {
                if self.nodes.remove(s).is_some() {
                    self.edges.retain(|_, e| e.src != *s && e.dst != *s);
                }
            }
            W::DeleteEdge(e) => {
                self.edges.remove(e);
            }
            W::TripleIns(t) => {
                self.triples.insert(*t);
            }
            W::TripleDel(t) => {
                self.triples.remove(t);
            }
        }
    }
}

#[derive(Clone, Debug)]
pub struct STx {
    pub view: SState,
    pub writes: Vec<W>,
    /// commit sequence number current when the transaction began
    pub begin_seq: u64,
    /// existing entities this transaction modified: (is_edge, slot)
    pub ents: BTreeSet<(bool, usize)>,
}

#[derive(Clone, Debug, Default)]
pub struct Spec {
    pub cur: SState,
    pub txs: Vec<Option<STx>>,
    /// writes of transactions that were rolled back / dropped (for anomaly classification)
    pub discarded: Vec<W>,
    pub commit_seq: u64,
    /// (commit sequence number, entities modified) of committed transactions
    pub commit_log: Vec<(u64, BTreeSet<(bool, usize)>)>,
    /// edge slot for an operation that creates a node and an edge at once
    pub next_eslot: usize,
}

impl Spec {
    fn view(&self, s: Option<usize>) -> &SState {
        match s.and_then(|s| self.txs.get(s)).and_then(|t| t.as_ref()) {
            Some(tx) => &tx.view,
            None => &self.cur,
        }
    }
    fn write(&mut self, s: Option<usize>, w: W) {
        match s.and_then(|s| self.txs.get_mut(s)).and_then(|t| t.as_mut()) {
            Some(tx) => {
                match &w {
                    W::SetProp(n, ..) | W::RemoveProp(n, _) | W::AddLabel(n, _) | W::RemoveLabel(n, _) if tx.view.nodes.contains_key(n) => {
                        tx.ents.insert((false, *n));
                    }
                    W::DetachDelete(n) if tx.view.nodes.contains_key(n) => {
                        tx.ents.insert((false, *n));
                        let inc: Vec<usize> = tx.view.edges.iter().filter(|(_, x)| x.src == *n || x.dst == *n).map(|(e, _)| *e).collect();
                        for e in inc {
                            tx.ents.insert((true, e));
                        }
                    }
                    W::SetEdgeProp(e, _) | W::DeleteEdge(e) if tx.view.edges.contains_key(e) => {
                        tx.ents.insert((true, *e));
                    }
                    _ => {}
                }
                tx.view.apply(&w);
                tx.writes.push(w);
            }
            None => {
                // an auto-commit statement is a transaction of its own
                let mut ents = BTreeSet::new();
                match &w {
                    W::SetProp(n, ..) | W::RemoveProp(n, _) | W::AddLabel(n, _) | W::RemoveLabel(n, _) | W::DetachDelete(n) if self.cur.nodes.contains_key(n) => {
                        ents.insert((false, *n));
                        if let W::DetachDelete(_) = &w {
                            for (e, x) in &self.cur.edges {
                                if x.src == *n || x.dst == *n {
                                    ents.insert((true, *e));
                                }
                            }
                        }
                    }
                    W::SetEdgeProp(e, _) | W::DeleteEdge(e) if self.cur.edges.contains_key(e) => {
                        ents.insert((true, *e));
                    }
                    _ => {}
                }
                self.commit_seq += 1;
                let seq = self.commit_seq;
                self.commit_log.push((seq, ents));
                self.cur.apply(&w)
            }
        }
    }
}

// ------------------------------------------------------------------------------------------
// Canonical observations
// ------------------------------------------------------------------------------------------

fn node_row(slot: &str, labels: &BTreeSet<String>, props: &BTreeMap<String, i64>) -> String {
    let l: Vec<&str> = labels.iter().map(String::as_str).collect();
    let p: Vec<String> = props.iter().map(|(k, v)| format!("{k}={v}")).collect();
    format!("{slot}[{}]{{{}}}", l.join(","), p.join(","))
}

/// What the specification answers for an observation, evaluated on a given state.
pub fn spec_observe(st: &SState, op: &HOp) -> Vec<String> {
    let mut out: Vec<String> = match op {
        HOp::LabelScan(_, l) => st
            .nodes
            .iter()
            .filter(|(_, n)| n.labels.contains(LABELS[*l as usize % 3]))
            .map(|(s, n)| node_row(&format!("n{s}"), &n.labels, &n.props))
            .collect(),
        HOp::AllScan(_) => st.nodes.iter().map(|(s, n)| node_row(&format!("n{s}"), &n.labels, &n.props)).collect(),
        HOp::Expand(_) => st
            .edges
            .iter()
            .map(|(e, x)| format!("n{}-e{e}->n{} k={}", x.src, x.dst, x.k.map_or("null".to_string(), |v| v.to_string())))
            .collect(),
        HOp::Count(_) => vec![format!("{}", st.nodes.len())],
        HOp::GetNode(_, s) => vec![st.nodes.get(s).map_or("none".to_string(), |n| node_row(&format!("n{s}"), &n.labels, &n.props))],
        HOp::GetEdge(_, e) => vec![st.edges.get(e).map_or("none".to_string(), |x| format!("n{}-e{e}->n{} k={}", x.src, x.dst, x.k.map_or("null".to_string(), |v| v.to_string())))],
        HOp::NodeExists(_, s) => vec![format!("{}", st.nodes.contains_key(s))],
        HOp::NodesBatch(_, ss) => {
            return ss.iter().map(|s| st.nodes.get(s).map_or("none".to_string(), |n| node_row(&format!("n{s}"), &n.labels, &n.props))).collect();
        }
        HOp::NeighborsOut(_, s) => st.edges.iter().filter(|(_, x)| x.src == *s).map(|(e, x)| format!("e{e}->n{}", x.dst)).collect(),
        HOp::Triples(_) => st.triples.iter().map(|t| format!("t{t}")).collect(),
        HOp::DbCounts => vec![format!("{}/{}", st.nodes.len(), st.edges.len())],
        HOp::DbIterNodes => st.nodes.keys().map(|s| format!("n{s}")).collect(),
        HOp::CypherLabelScan(_, l) | HOp::ParamsLabelScan(_, l) => st
            .nodes
            .iter()
            .filter(|(_, n)| n.labels.contains(LABELS[*l as usize % 3]))
            .map(|(s, n)| node_row(&format!("n{s}"), &n.labels, &n.props))
            .collect(),
        HOp::GremlinLabel(_, l) => st.nodes.iter().filter(|(_, n)| n.labels.contains(LABELS[*l as usize % 3])).map(|(s, _)| format!("n{s}")).collect(),
        HOp::GremlinOut(_) => st.edges.values().map(|x| format!("n{}", x.dst)).collect(),
        HOp::GraphqlLabel(_, l) => st
            .nodes
            .values()
            .filter(|n| n.labels.contains(LABELS[*l as usize % 3]))
            .map(|n| format!("k={},m={}", n.props.get("k").map_or("null".to_string(), |v| v.to_string()), n.props.get("m").map_or("null".to_string(), |v| v.to_string())))
            .collect(),
        HOp::SumCount(_) => vec![format!("{}/{}", st.nodes.values().filter_map(|n| n.props.get("k")).sum::<i64>(), st.nodes.len())],
        HOp::FilterGt(_, c) => st.nodes.iter().filter(|(_, n)| n.props.get("k").is_some_and(|v| v > c)).map(|(s, _)| format!("n{s}")).collect(),
        HOp::EdgeCount(_) => vec![format!("{}", st.edges.len())],
        HOp::GetNodeProp(_, s, k) => vec![st.nodes.get(s).and_then(|n| n.props.get(KEYS[*k as usize % 2])).map_or("none".to_string(), |v| v.to_string())],
        HOp::NeighborsIn(_, s) => st.edges.iter().filter(|(_, x)| x.dst == *s).map(|(e, x)| format!("e{e}<-n{}", x.src)).collect(),
        HOp::NeighborsOutByType(_, s) => st.edges.iter().filter(|(_, x)| x.src == *s).map(|(e, x)| format!("e{e}->n{}", x.dst)).collect(),
        HOp::EdgeExists(_, e) => vec![format!("{}", st.edges.contains_key(e))],
        HOp::Degree(_, s) => vec![format!("{}/{}", st.edges.values().filter(|x| x.src == *s).count(), st.edges.values().filter(|x| x.dst == *s).count())],
        HOp::TriplesBySubject(_, b) => st.triples.iter().filter(|t| (**t & 1) == (*b & 1)).map(|t| format!("t{t}")).collect(),
        HOp::DbIterEdges => st.edges.keys().map(|e| format!("e{e}")).collect(),
        HOp::DbGetNode(s) => vec![st.nodes.get(s).map_or("none".to_string(), |n| node_row(&format!("n{s}"), &n.labels, &n.props))],
        HOp::TwoHop(_) | HOp::TwoHopCount(_) | HOp::TwoHopSum(_) => {
            let mut rows = Vec::new();
            let (mut cnt, mut sum) = (0i64, 0i64);
            for (r, x) in &st.edges {
                for (s2, y) in &st.edges {
                    if x.dst == y.src {
                        rows.push(format!("n{}-e{r}->n{}-e{s2}->n{}", x.src, x.dst, y.dst));
                        cnt += 1;
                        sum += st.nodes.get(&y.dst).and_then(|n| n.props.get("k")).copied().unwrap_or(0);
                    }
                }
            }
            match op {
                HOp::TwoHop(_) => rows,
                HOp::TwoHopCount(_) => vec![format!("{cnt}")],
                _ => vec![format!("{sum}")],
            }
        }
        _ => vec![],
    };
    out.sort();
    out
}

// ------------------------------------------------------------------------------------------
// The two real systems (same source text, two crate trees)
// ------------------------------------------------------------------------------------------

#[derive(Default, Clone)]
pub struct IdMap {
    pub node_of: BTreeMap<u64, usize>,
    pub edge_of: BTreeMap<u64, usize>,
    pub node_id: BTreeMap<usize, u64>,
    pub edge_id: BTreeMap<usize, u64>,
}

macro_rules! system {
    ($modname:ident, $engine:ident, $common:ident, $node:ty) => {
        pub mod $modname {
            use super::*;
            use $common::types::{EdgeId, NodeId, Value};
            use $engine::{GrafeoDB, Session};

            pub struct Sys {
                pub db: GrafeoDB,
                pub sessions: Vec<Option<Session>>,
                pub ids: IdMap,
                /// for the two-hop observations: the answer derived from this system's own
                /// single-hop expand answer, taken in the same step by the same session
                pub side: Option<Vec<String>>,
                /// edge slot for an operation that creates a node and an edge at once
                pub next_eslot: usize,
            }

            fn val_i(v: &Value) -> Option<i64> {
                match v {
                    Value::Int64(i) => Some(*i),
                    _ => None,
                }
            }

            impl Sys {
                pub fn new(n_sessions: usize) -> Sys {
                    let db = GrafeoDB::new_in_memory();
                    let sessions = (0..n_sessions).map(|_| Some(db.session())).collect();
                    Sys { db, sessions, ids: IdMap::default(), side: None, next_eslot: 0 }
                }

                fn n(&self, id: u64) -> String {
                    self.ids.node_of.get(&id).map_or(format!("?n{id}"), |s| format!("n{s}"))
                }
                fn e(&self, id: u64) -> String {
                    self.ids.edge_of.get(&id).map_or(format!("?e{id}"), |s| format!("e{s}"))
                }
                fn reg_node(&mut self, slot: usize, id: u64) {
                    self.ids.node_of.insert(id, slot);
                    self.ids.node_id.insert(slot, id);
                }
                fn reg_edge(&mut self, slot: usize, id: u64) {
                    self.ids.edge_of.insert(id, slot);
                    self.ids.edge_id.insert(slot, id);
                }
                fn nid(&self, slot: usize) -> Option<u64> {
                    self.ids.node_id.get(&slot).copied()
                }
                fn eid(&self, slot: usize) -> Option<u64> {
                    self.ids.edge_id.get(&slot).copied()
                }

                fn node_rows(&self, rows: &[Vec<Value>]) -> Vec<String> {
                    // columns: id, labels, k, m
                    let mut out = Vec::new();
                    for r in rows {
                        let id = r.first().and_then(val_i).unwrap_or(-1) as u64;
                        let mut labels = BTreeSet::new();
                        if let Some(Value::List(ls)) = r.get(1) {
                            for l in ls.iter() {
                                if let Value::String(s) = l {
                                    labels.insert(s.to_string());
                                }
                            }
                        }
                        let mut props = BTreeMap::new();
                        for (i, k) in KEYS.iter().enumerate() {
                            if let Some(v) = r.get(2 + i).and_then(val_i) {
                                props.insert((*k).to_string(), v);
                            }
                        }
                        out.push(node_row(&self.n(id), &labels, &props));
                    }
                    out.sort();
                    out
                }

                fn node_obj(&self, n: &Option<$node>) -> String {
                    match n {
                        None => "none".to_string(),
                        Some(n) => {
                            let labels: BTreeSet<String> = n.labels.iter().map(|l| l.to_string()).collect();
                            let props: BTreeMap<String, i64> = n.properties.iter().filter_map(|(k, v)| val_i(v).map(|i| (k.as_str().to_string(), i))).collect();
                            node_row(&self.n(n.id.as_u64()), &labels, &props)
                        }
                    }
                }

                /// Executes one operation; returns its canonical result.
                /// `slot` = slot to register for a creation.
                pub fn step(&mut self, op: &HOp, new_slot: usize) -> Vec<String> {
                    let q = |sess: &Session, text: &str| -> Result<Vec<Vec<Value>>, String> { sess.execute(text).map(|r| r.rows).map_err(|e| format!("err:{e}")) };
                    match op {
                        HOp::Begin(s) => vec![format!("{:?}", self.sessions[*s].as_mut().unwrap().begin_tx().map_err(|e| e.to_string()))],
                        HOp::Commit(s) => vec![match self.sessions[*s].as_mut().unwrap().commit() {
                            Ok(()) => "ok".to_string(),
                            Err(e) => format!("err:{e}"),
                        }],
                        HOp::Rollback(s) => vec![match self.sessions[*s].as_mut().unwrap().rollback() {
                            Ok(()) => "ok".to_string(),
                            Err(e) => format!("err:{e}"),
                        }],
                        HOp::DropSession(s) => {
                            self.sessions[*s] = None;
                            self.sessions[*s] = Some(self.db.session());
                            vec!["ok".into()]
                        }
                        HOp::CreateNode(s, ls) => {
                            let labels: Vec<&str> = ls.iter().map(|l| LABELS[*l as usize % 3]).collect();
                            let id = self.sessions[*s].as_ref().unwrap().create_node(&labels).as_u64();
                            self.reg_node(new_slot, id);
                            vec!["created".into()]
                        }
                        HOp::CreateNodeProps(s, ls, k, v) => {
                            let labels: Vec<&str> = ls.iter().map(|l| LABELS[*l as usize % 3]).collect();
                            let id = self.sessions[*s].as_ref().unwrap().create_node_with_props(&labels, [(KEYS[*k as usize % 2], Value::Int64(*v))]).as_u64();
                            self.reg_node(new_slot, id);
                            vec!["created".into()]
                        }
                        HOp::InsertQ(s, l, k, v) => {
                            let text = format!("INSERT (:{} {{{}: {v}}})", LABELS[*l as usize % 3], KEYS[*k as usize % 2]);
                            match q(self.sessions[*s].as_ref().unwrap(), &text) {
                                Ok(rows) => {
                                    if let Some(id) = rows.first().and_then(|r| r.first()).and_then(val_i) {
                                        self.reg_node(new_slot, id as u64);
                                        vec!["created".into()]
                                    } else {
                                        vec!["created-without-id".into()]
                                    }
                                }
                                Err(e) => vec![e],
                            }
                        }
                        HOp::CreateEdge(s, a, b) => match (self.nid(*a), self.nid(*b)) {
                            (Some(x), Some(y)) => {
                                let id = self.sessions[*s].as_ref().unwrap().create_edge(NodeId::new(x), NodeId::new(y), "R").as_u64();
                                self.reg_edge(new_slot, id);
                                vec!["created".into()]
                            }
                            _ => vec!["skipped".into()],
                        },
                        HOp::CreateEdgeQ(s, a, b, v) => match (self.nid(*a), self.nid(*b)) {
                            (Some(x), Some(y)) => {
                                let before: BTreeSet<u64> = self.ids.edge_of.keys().copied().collect();
                                let text = format!("MATCH (a), (b) WHERE id(a) = {x} AND id(b) = {y} CREATE (a)-[:R {{k: {v}}}]->(b)");
                                match q(self.sessions[*s].as_ref().unwrap(), &text) {
                                    Ok(_) => {
                                        // the statement returns no id: find the new edge through the adjacency of a
                                        let outs = self.sessions[*s].as_ref().unwrap().get_neighbors_outgoing(NodeId::new(x));
                                        let mut fresh: Vec<u64> = outs.iter().map(|(_, e)| e.as_u64()).filter(|e| !before.contains(e)).collect();
                                        fresh.sort_unstable();
                                        if let Some(id) = fresh.last() {
                                            self.reg_edge(new_slot, *id);
                                            vec!["created".into()]
                                        } else {
                                            vec!["created-nothing".into()]
                                        }
                                    }
                                    Err(e) => vec![e],
                                }
                            }
                            _ => vec!["skipped".into()],
                        },
                        HOp::SetPropQ(s, n, k, v) => match self.nid(*n) {
                            Some(id) => vec![q(self.sessions[*s].as_ref().unwrap(), &format!("MATCH (n) WHERE id(n) = {id} SET n.{} = {v}", KEYS[*k as usize % 2])).map(|_| "ok".to_string()).unwrap_or_else(|e| e)],
                            None => vec!["skipped".into()],
                        },
                        HOp::SetEdgePropQ(s, e, v) => match self.eid(*e) {
                            Some(id) => vec![q(self.sessions[*s].as_ref().unwrap(), &format!("MATCH (a)-[r]->(b) WHERE id(r) = {id} SET r.k = {v}")).map(|_| "ok".to_string()).unwrap_or_else(|e| e)],
                            None => vec!["skipped".into()],
                        },
                        HOp::RemovePropQ(s, n, k) => match self.nid(*n) {
                            Some(id) => vec![q(self.sessions[*s].as_ref().unwrap(), &format!("MATCH (n) WHERE id(n) = {id} REMOVE n.{}", KEYS[*k as usize % 2])).map(|_| "ok".to_string()).unwrap_or_else(|e| e)],
                            None => vec!["skipped".into()],
                        },
                        HOp::AddLabelQ(s, n, l) => match self.nid(*n) {
                            Some(id) => vec![q(self.sessions[*s].as_ref().unwrap(), &format!("MATCH (n) WHERE id(n) = {id} SET n:{}", LABELS[*l as usize % 3])).map(|_| "ok".to_string()).unwrap_or_else(|e| e)],
                            None => vec!["skipped".into()],
                        },
                        HOp::RemoveLabelQ(s, n, l) => match self.nid(*n) {
                            Some(id) => vec![q(self.sessions[*s].as_ref().unwrap(), &format!("MATCH (n) WHERE id(n) = {id} REMOVE n:{}", LABELS[*l as usize % 3])).map(|_| "ok".to_string()).unwrap_or_else(|e| e)],
                            None => vec!["skipped".into()],
                        },
                        HOp::DeleteNodeQ(s, n) => match self.nid(*n) {
                            Some(id) => vec![q(self.sessions[*s].as_ref().unwrap(), &format!("MATCH (n) WHERE id(n) = {id} DETACH DELETE n")).map(|_| "ok".to_string()).unwrap_or_else(|e| e)],
                            None => vec!["skipped".into()],
                        },
                        HOp::TripleInsert(s, t) => {
                            let (a, b, c) = triple_text(*t);
                            vec![self.sessions[*s].as_ref().unwrap().execute_sparql(&format!("INSERT DATA {{ <{a}> <{b}> \"{c}\" }}")).map(|_| "ok".to_string()).unwrap_or_else(|e| format!("err:{e}"))]
                        }
                        HOp::TripleDelete(s, t) => {
                            let (a, b, c) = triple_text(*t);
                            vec![self.sessions[*s].as_ref().unwrap().execute_sparql(&format!("DELETE DATA {{ <{a}> <{b}> \"{c}\" }}")).map(|_| "ok".to_string()).unwrap_or_else(|e| format!("err:{e}"))]
                        }
                        HOp::DbCreateNode(ls) => {
                            let labels: Vec<&str> = ls.iter().map(|l| LABELS[*l as usize % 3]).collect();
                            let id = self.db.create_node(&labels).as_u64();
                            self.reg_node(new_slot, id);
                            vec!["created".into()]
                        }
                        HOp::DbSetProp(n, k, v) => match self.nid(*n) {
                            Some(id) => {
                                self.db.set_node_property(NodeId::new(id), KEYS[*k as usize % 2], Value::Int64(*v));
                                vec!["ok".into()]
                            }
                            None => vec!["skipped".into()],
                        },
                        HOp::DbDeleteEdge(e) => match self.eid(*e) {
                            Some(id) => vec![format!("{}", self.db.delete_edge(EdgeId::new(id)))],
                            None => vec!["skipped".into()],
                        },
                        HOp::DbAddLabel(n, l) => match self.nid(*n) {
                            Some(id) => vec![format!("{}", self.db.add_node_label(NodeId::new(id), LABELS[*l as usize % 3]))],
                            None => vec!["skipped".into()],
                        },
                        HOp::CypherCreate(s, l, k, v) => {
                            let text = format!("CREATE (n:{} {{{}: {v}}}) RETURN id(n)", LABELS[*l as usize % 3], KEYS[*k as usize % 2]);
                            match self.sessions[*s].as_ref().unwrap().execute_cypher(&text).map(|r| r.rows).map_err(|e| format!("err:{e}")) {
                                Ok(rows) => {
                                    if let Some(id) = rows.first().and_then(|r| r.first()).and_then(val_i) {
                                        self.reg_node(new_slot, id as u64);
                                        vec!["created".into()]
                                    } else {
                                        vec!["created-without-id".into()]
                                    }
                                }
                                Err(e) => vec![e],
                            }
                        }
                        HOp::MatchCreatePathQ(s, a, l, v) => match self.nid(*a) {
                            Some(x) => {
                                let before: BTreeSet<u64> = self.ids.edge_of.keys().copied().collect();
                                let text = format!("MATCH (a) WHERE id(a) = {x} CREATE (a)-[:R {{k: {v}}}]->(:{} {{k: {v}}})", LABELS[*l as usize % 3]);
                                match q(self.sessions[*s].as_ref().unwrap(), &text) {
                                    Ok(_) => {
                                        // no id is returned: the new edge is the fresh outgoing one of a, the new node its target
                                        let outs = self.sessions[*s].as_ref().unwrap().get_neighbors_outgoing(NodeId::new(x));
                                        let mut fresh: Vec<(u64, u64)> = outs.iter().map(|(d, e)| (e.as_u64(), d.as_u64())).filter(|(e, _)| !before.contains(e)).collect();
                                        fresh.sort_unstable();
                                        if let Some((e, d)) = fresh.last() {
                                            let es = self.next_eslot;
                                            self.reg_edge(es, *e);
                                            if !self.ids.node_of.contains_key(d) {
                                                self.reg_node(new_slot, *d);
                                            }
                                            vec!["created".into()]
                                        } else {
                                            vec!["created-nothing".into()]
                                        }
                                    }
                                    Err(e) => vec![e],
                                }
                            }
                            None => vec!["skipped".into()],
                        },
                        HOp::DeleteNodePlainQ(s, n) => match self.nid(*n) {
                            Some(id) => vec![q(self.sessions[*s].as_ref().unwrap(), &format!("MATCH (n) WHERE id(n) = {id} DELETE n")).map(|_| "ok".to_string()).unwrap_or_else(|e| e)],
                            None => vec!["skipped".into()],
                        },
                        HOp::DeleteEdgeQ(s, e) => match self.eid(*e) {
                            Some(id) => vec![q(self.sessions[*s].as_ref().unwrap(), &format!("MATCH (a)-[r]->(b) WHERE id(r) = {id} DELETE r")).map(|_| "ok".to_string()).unwrap_or_else(|e| e)],
                            None => vec!["skipped".into()],
                        },
                        // ---------------- observations ----------------
                        HOp::CypherLabelScan(s, l) => match self.sessions[*s].as_ref().unwrap().execute_cypher(&format!("MATCH (n:{}) RETURN id(n), labels(n), n.k, n.m", LABELS[*l as usize % 3])) {
                            Ok(r) => self.node_rows(&r.rows),
                            Err(e) => vec![format!("err:{e}")],
                        },
                        HOp::ParamsLabelScan(s, l) => match self.sessions[*s].as_ref().unwrap().execute_with_params(&format!("MATCH (n:{}) RETURN id(n), labels(n), n.k, n.m", LABELS[*l as usize % 3]), std::collections::HashMap::new()) {
                            Ok(r) => self.node_rows(&r.rows),
                            Err(e) => vec![format!("err:{e}")],
                        },
                        HOp::GremlinLabel(s, l) => match self.sessions[*s].as_ref().unwrap().execute_gremlin(&format!("g.V().hasLabel('{}')", LABELS[*l as usize % 3])) {
                            Ok(r) => {
                                let mut out: Vec<String> = r.rows.iter().map(|row| self.n(row.first().and_then(val_i).unwrap_or(-1) as u64)).collect();
                                out.sort();
                                out
                            }
                            Err(e) => vec![format!("err:{e}")],
                        },
                        HOp::GremlinOut(s) => match self.sessions[*s].as_ref().unwrap().execute_gremlin("g.V().out('R')") {
                            Ok(r) => {
                                let mut out: Vec<String> = r.rows.iter().map(|row| self.n(row.first().and_then(val_i).unwrap_or(-1) as u64)).collect();
                                out.sort();
                                out
                            }
                            Err(e) => vec![format!("err:{e}")],
                        },
                        HOp::GraphqlLabel(s, l) => match self.sessions[*s].as_ref().unwrap().execute_graphql(&format!("{{ {} {{ k m }} }}", LABELS[*l as usize % 3])) {
                            Ok(r) => {
                                let mut out: Vec<String> = r
                                    .rows
                                    .iter()
                                    .map(|row| format!("k={},m={}", row.first().and_then(val_i).map_or("null".to_string(), |v| v.to_string()), row.get(1).and_then(val_i).map_or("null".to_string(), |v| v.to_string())))
                                    .collect();
                                out.sort();
                                out
                            }
                            Err(e) => vec![format!("err:{e}")],
                        },
                        HOp::SumCount(s) => match q(self.sessions[*s].as_ref().unwrap(), "MATCH (n) RETURN sum(n.k), count(n)") {
                            Ok(rows) => vec![format!(
                                "{}/{}",
                                rows.first().and_then(|r| r.first()).and_then(val_i).map_or("?".to_string(), |v| v.to_string()),
                                rows.first().and_then(|r| r.get(1)).and_then(val_i).map_or("?".to_string(), |v| v.to_string())
                            )],
                            Err(e) => vec![e],
                        },
                        HOp::FilterGt(s, c) => match q(self.sessions[*s].as_ref().unwrap(), &format!("MATCH (n) WHERE n.k > {c} RETURN id(n)")) {
                            Ok(rows) => {
                                let mut out: Vec<String> = rows.iter().map(|row| self.n(row.first().and_then(val_i).unwrap_or(-1) as u64)).collect();
                                out.sort();
                                out
                            }
                            Err(e) => vec![e],
                        },
                        HOp::EdgeCount(s) => match q(self.sessions[*s].as_ref().unwrap(), "MATCH (a)-[r]->(b) RETURN count(r)") {
                            Ok(rows) => vec![rows.first().and_then(|r| r.first()).and_then(val_i).map_or("?".to_string(), |v| v.to_string())],
                            Err(e) => vec![e],
                        },
                        HOp::GetNodeProp(s, n, k) => match self.nid(*n) {
                            Some(id) => vec![self.sessions[*s].as_ref().unwrap().get_node_property(NodeId::new(id), KEYS[*k as usize % 2]).as_ref().and_then(val_i).map_or("none".to_string(), |v| v.to_string())],
                            None => vec!["none".into()],
                        },
                        HOp::NeighborsIn(s, n) => match self.nid(*n) {
                            Some(id) => {
                                let mut out: Vec<String> = self.sessions[*s].as_ref().unwrap().get_neighbors_incoming(NodeId::new(id)).iter().map(|(d, e)| format!("{}<-{}", self.e(e.as_u64()), self.n(d.as_u64()))).collect();
                                out.sort();
                                out
                            }
                            None => vec![],
                        },
                        HOp::NeighborsOutByType(s, n) => match self.nid(*n) {
                            Some(id) => {
                                let mut out: Vec<String> = self.sessions[*s].as_ref().unwrap().get_neighbors_outgoing_by_type(NodeId::new(id), "R").iter().map(|(d, e)| format!("{}->{}", self.e(e.as_u64()), self.n(d.as_u64()))).collect();
                                out.sort();
                                out
                            }
                            None => vec![],
                        },
                        HOp::EdgeExists(s, e) => match self.eid(*e) {
                            Some(id) => vec![format!("{}", self.sessions[*s].as_ref().unwrap().edge_exists(EdgeId::new(id)))],
                            None => vec!["false".into()],
                        },
                        HOp::Degree(s, n) => match self.nid(*n) {
                            Some(id) => {
                                let (o, i) = self.sessions[*s].as_ref().unwrap().get_degree(NodeId::new(id));
                                vec![format!("{o}/{i}")]
                            }
                            None => vec!["0/0".into()],
                        },
                        HOp::TriplesBySubject(s, b) => match self.sessions[*s].as_ref().unwrap().execute_sparql(&format!("SELECT ?p ?o WHERE {{ <http://s{}> ?p ?o }}", b & 1)) {
                            Ok(r) => {
                                let mut out: Vec<String> = r
                                    .rows
                                    .iter()
                                    .map(|row| match row.get(1) {
                                        Some(Value::String(s)) => s.strip_prefix('o').map_or(format!("?{s}"), |t| format!("t{t}")),
                                        other => format!("{other:?}"),
                                    })
                                    .collect();
                                out.sort();
                                out
                            }
                            Err(e) => vec![format!("err:{e}")],
                        },
                        HOp::DbIterEdges => {
                            let mut out: Vec<String> = self.db.iter_edges().map(|x| self.e(x.id.as_u64())).collect();
                            out.sort();
                            out
                        }
                        HOp::DbGetNode(n) => match self.nid(*n) {
                            Some(id) => vec![self.node_obj(&self.db.get_node(NodeId::new(id)))],
                            None => vec!["none".into()],
                        },
                        HOp::TwoHop(s) | HOp::TwoHopCount(s) | HOp::TwoHopSum(s) => {
                            let sess = self.sessions[*s].as_ref().unwrap();
                            let g = |r: &Vec<Value>, i: usize| r.get(i).and_then(val_i).unwrap_or(-1) as u64;
                            // single-hop answer of the same session at the same instant
                            let hop = q(sess, "MATCH (a)-[r]->(b) RETURN id(a), id(r), id(b), b.k");
                            let answer = match op {
                                HOp::TwoHop(_) => q(sess, "MATCH (a)-[r]->(b)-[s]->(c) RETURN id(a), id(r), id(b), id(s), id(c)").map(|rows| {
                                    let mut out: Vec<String> = rows.iter().map(|r| format!("{}-{}->{}-{}->{}", self.n(g(r, 0)), self.e(g(r, 1)), self.n(g(r, 2)), self.e(g(r, 3)), self.n(g(r, 4)))).collect();
                                    out.sort();
                                    out
                                }),
                                HOp::TwoHopCount(_) => q(sess, "MATCH (a)-[]->(b)-[]->(c) RETURN count(c)").map(|rows| vec![rows.first().and_then(|r| r.first()).and_then(val_i).map_or("?".to_string(), |v| v.to_string())]),
                                _ => q(sess, "MATCH (a)-[]->(b)-[]->(c) RETURN sum(c.k)").map(|rows| vec![rows.first().and_then(|r| r.first()).and_then(val_i).map_or("?".to_string(), |v| v.to_string())]),
                            };
                            self.side = hop.ok().map(|h| {
                                let mut rows = Vec::new();
                                let (mut cnt, mut sum) = (0i64, 0i64);
                                for x in &h {
                                    for y in &h {
                                        if g(x, 2) == g(y, 0) {
                                            rows.push(format!("{}-{}->{}-{}->{}", self.n(g(x, 0)), self.e(g(x, 1)), self.n(g(x, 2)), self.e(g(y, 1)), self.n(g(y, 2))));
                                            cnt += 1;
                                            sum += y.get(3).and_then(val_i).unwrap_or(0);
                                        }
                                    }
                                }
                                rows.sort();
                                match op {
                                    HOp::TwoHop(_) => rows,
                                    HOp::TwoHopCount(_) => vec![format!("{cnt}")],
                                    _ => vec![format!("{sum}")],
                                }
                            });
                            answer.unwrap_or_else(|e| vec![e])
                        }
                        HOp::LabelScan(s, l) => match q(self.sessions[*s].as_ref().unwrap(), &format!("MATCH (n:{}) RETURN id(n), labels(n), n.k, n.m", LABELS[*l as usize % 3])) {
                            Ok(rows) => self.node_rows(&rows),
                            Err(e) => vec![e],
                        },
                        HOp::AllScan(s) => match q(self.sessions[*s].as_ref().unwrap(), "MATCH (n) RETURN id(n), labels(n), n.k, n.m") {
                            Ok(rows) => self.node_rows(&rows),
                            Err(e) => vec![e],
                        },
                        HOp::Expand(s) => match q(self.sessions[*s].as_ref().unwrap(), "MATCH (a)-[r]->(b) RETURN id(a), id(r), id(b), r.k") {
                            Ok(rows) => {
                                let mut out: Vec<String> = rows
                                    .iter()
                                    .map(|r| {
                                        let a = r.first().and_then(val_i).unwrap_or(-1) as u64;
                                        let e = r.get(1).and_then(val_i).unwrap_or(-1) as u64;
                                        let b = r.get(2).and_then(val_i).unwrap_or(-1) as u64;
                                        let k = r.get(3).and_then(val_i).map_or("null".to_string(), |v| v.to_string());
                                        format!("{}-{}->{} k={k}", self.n(a), self.e(e), self.n(b))
                                    })
                                    .collect();
                                out.sort();
                                out
                            }
                            Err(e) => vec![e],
                        },
                        HOp::Count(s) => match q(self.sessions[*s].as_ref().unwrap(), "MATCH (n) RETURN count(n)") {
                            Ok(rows) => vec![rows.first().and_then(|r| r.first()).and_then(val_i).map_or("?".to_string(), |v| v.to_string())],
                            Err(e) => vec![e],
                        },
                        HOp::GetNode(s, n) => match self.nid(*n) {
                            Some(id) => vec![self.node_obj(&self.sessions[*s].as_ref().unwrap().get_node(NodeId::new(id)))],
                            None => vec!["none".into()],
                        },
                        HOp::GetEdge(s, e) => match self.eid(*e) {
                            Some(id) => vec![match self.sessions[*s].as_ref().unwrap().get_edge(EdgeId::new(id)) {
                                None => "none".to_string(),
                                Some(x) => format!(
                                    "{}-{}->{} k={}",
                                    self.n(x.src.as_u64()),
                                    self.e(x.id.as_u64()),
                                    self.n(x.dst.as_u64()),
                                    x.properties.iter().find(|(k, _)| k.as_str() == "k").and_then(|(_, v)| val_i(v)).map_or("null".to_string(), |v| v.to_string())
                                ),
                            }],
                            None => vec!["none".into()],
                        },
                        HOp::NodeExists(s, n) => match self.nid(*n) {
                            Some(id) => vec![format!("{}", self.sessions[*s].as_ref().unwrap().node_exists(NodeId::new(id)))],
                            None => vec!["false".into()],
                        },
                        HOp::NodesBatch(s, ns) => {
                            let known: Vec<Option<u64>> = ns.iter().map(|n| self.nid(*n)).collect();
                            let ids: Vec<NodeId> = known.iter().flatten().map(|i| NodeId::new(*i)).collect();
                            let got = self.sessions[*s].as_ref().unwrap().get_nodes_batch(&ids);
                            let mut it = got.iter();
                            known.iter().map(|k| if k.is_some() { self.node_obj(it.next().unwrap_or(&None)) } else { "none".to_string() }).collect()
                        }
                        HOp::NeighborsOut(s, n) => match self.nid(*n) {
                            Some(id) => {
                                let mut out: Vec<String> = self.sessions[*s].as_ref().unwrap().get_neighbors_outgoing(NodeId::new(id)).iter().map(|(d, e)| format!("{}->{}", self.e(e.as_u64()), self.n(d.as_u64()))).collect();
                                out.sort();
                                out
                            }
                            None => vec![],
                        },
                        HOp::Triples(s) => match self.sessions[*s].as_ref().unwrap().execute_sparql("SELECT ?s ?p ?o WHERE { ?s ?p ?o }") {
                            Ok(r) => {
                                let mut out: Vec<String> = r
                                    .rows
                                    .iter()
                                    .map(|row| {
                                        let o = match row.get(2) {
                                            Some(Value::String(s)) => s.to_string(),
                                            other => format!("{other:?}"),
                                        };
                                        // object literal is "o<t>"
                                        o.strip_prefix('o').map_or(format!("?{o}"), |t| format!("t{t}"))
                                    })
                                    .collect();
                                out.sort();
                                out
                            }
                            Err(e) => vec![format!("err:{e}")],
                        },
                        HOp::DbCounts => vec![format!("{}/{}", self.db.node_count(), self.db.edge_count())],
                        HOp::DbIterNodes => {
                            let mut out: Vec<String> = self.db.iter_nodes().map(|n| self.n(n.id.as_u64())).collect();
                            out.sort();
                            out
                        }
                    }
                }

                /// Full dump of the committed state through a fresh auto-commit session and the
                /// direct accessors (for C02).
                pub fn dump(&mut self, slots_n: usize, slots_e: usize) -> BTreeMap<&'static str, Vec<String>> {
                    let fresh = self.db.session();
                    let mut out: BTreeMap<&'static str, Vec<String>> = BTreeMap::new();
                    let qq = |text: &str| -> Result<Vec<Vec<Value>>, String> { fresh.execute(text).map(|r| r.rows).map_err(|e| format!("err:{e}")) };
                    out.insert("unlabelled-scan", qq("MATCH (n) RETURN id(n), labels(n), n.k, n.m").map(|r| self.node_rows(&r)).unwrap_or_else(|e| vec![e]));
                    let mut ls = Vec::new();
                    for l in LABELS {
                        match qq(&format!("MATCH (n:{l}) RETURN id(n), labels(n), n.k, n.m")) {
                            Ok(r) => ls.extend(self.node_rows(&r).into_iter().map(|x| format!("{l}:{x}"))),
                            Err(e) => ls.push(e),
                        }
                    }
                    out.insert("label-scan", ls);
                    out.insert(
                        "expand",
                        qq("MATCH (a)-[r]->(b) RETURN id(a), id(r), id(b), r.k")
                            .map(|rows| {
                                let mut v: Vec<String> = rows
                                    .iter()
                                    .map(|r| {
                                        let a = r.first().and_then(val_i).unwrap_or(-1) as u64;
                                        let e = r.get(1).and_then(val_i).unwrap_or(-1) as u64;
                                        let b = r.get(2).and_then(val_i).unwrap_or(-1) as u64;
                                        let k = r.get(3).and_then(val_i).map_or("null".to_string(), |v| v.to_string());
                                        format!("{}-{}->{} k={k}", self.n(a), self.e(e), self.n(b))
                                    })
                                    .collect();
                                v.sort();
                                v
                            })
                            .unwrap_or_else(|e| vec![e]),
                    );
                    let mut gn = Vec::new();
                    for s in 0..slots_n {
                        if let Some(id) = self.nid(s) {
                            let x = self.node_obj(&fresh.get_node(NodeId::new(id)));
                            if x != "none" {
                                gn.push(x);
                            }
                        }
                    }
                    gn.sort();
                    out.insert("get_node", gn);
                    let mut ge = Vec::new();
                    let mut nb = Vec::new();
                    for s in 0..slots_e {
                        if let Some(id) = self.eid(s) {
                            if let Some(x) = fresh.get_edge(EdgeId::new(id)) {
                                ge.push(format!(
                                    "{}-{}->{} k={}",
                                    self.n(x.src.as_u64()),
                                    self.e(x.id.as_u64()),
                                    self.n(x.dst.as_u64()),
                                    x.properties.iter().find(|(k, _)| k.as_str() == "k").and_then(|(_, v)| val_i(v)).map_or("null".to_string(), |v| v.to_string())
                                ));
                            }
                        }
                    }
                    ge.sort();
                    out.insert("get_edge", ge);
                    for s in 0..slots_n {
                        if let Some(id) = self.nid(s) {
                            for (d, e) in fresh.get_neighbors_outgoing(NodeId::new(id)) {
                                nb.push(format!("{}-{}->{}", self.n(id), self.e(e.as_u64()), self.n(d.as_u64())));
                            }
                        }
                    }
                    nb.sort();
                    out.insert("neighbours", nb);
                    // further access paths: other query languages, incoming side, degrees, direct iteration
                    let mut cy = Vec::new();
                    let mut gr = Vec::new();
                    let mut gq = Vec::new();
                    for l in LABELS {
                        match fresh.execute_cypher(&format!("MATCH (n:{l}) RETURN id(n), labels(n), n.k, n.m")) {
                            Ok(r) => cy.extend(self.node_rows(&r.rows).into_iter().map(|x| format!("{l}:{x}"))),
                            Err(e) => cy.push(format!("err:{e}")),
                        }
                        match fresh.execute_gremlin(&format!("g.V().hasLabel('{l}')")) {
                            Ok(r) => {
                                let mut v: Vec<String> = r.rows.iter().map(|row| format!("{l}:{}", self.n(row.first().and_then(val_i).unwrap_or(-1) as u64))).collect();
                                v.sort();
                                gr.extend(v);
                            }
                            Err(e) => gr.push(format!("err:{e}")),
                        }
                        match fresh.execute_graphql(&format!("{{ {l} {{ k m }} }}")) {
                            Ok(r) => {
                                let mut v: Vec<String> = r
                                    .rows
                                    .iter()
                                    .map(|row| format!("{l}:k={},m={}", row.first().and_then(val_i).map_or("null".to_string(), |v| v.to_string()), row.get(1).and_then(val_i).map_or("null".to_string(), |v| v.to_string())))
                                    .collect();
                                v.sort();
                                gq.extend(v);
                            }
                            Err(e) => gq.push(format!("err:{e}")),
                        }
                    }
                    out.insert("cypher-label-scan", cy);
                    out.insert("gremlin-hasLabel", gr);
                    out.insert("graphql-label", gq);
                    let mut nin = Vec::new();
                    let mut deg = Vec::new();
                    for s in 0..slots_n {
                        if let Some(id) = self.nid(s) {
                            for (d, e) in fresh.get_neighbors_incoming(NodeId::new(id)) {
                                nin.push(format!("{}-{}->{}", self.n(d.as_u64()), self.e(e.as_u64()), self.n(id)));
                            }
                            let (o, i) = fresh.get_degree(NodeId::new(id));
                            if (o, i) != (0, 0) {
                                deg.push(format!("{}:{o}/{i}", self.n(id)));
                            }
                        }
                    }
                    nin.sort();
                    out.insert("neighbours-in", nin);
                    out.insert("get_degree", deg);
                    let mut ie: Vec<String> = self.db.iter_edges().map(|x| self.e(x.id.as_u64())).collect();
                    ie.sort();
                    out.insert("db.iter_edges", ie);
                    out.insert(
                        "aggregate",
                        vec![match qq("MATCH (n) RETURN sum(n.k), count(n)") {
                            Ok(rows) => format!(
                                "{}/{}",
                                rows.first().and_then(|r| r.first()).and_then(val_i).map_or("?".to_string(), |v| v.to_string()),
                                rows.first().and_then(|r| r.get(1)).and_then(val_i).map_or("?".to_string(), |v| v.to_string())
                            ),
                            Err(e) => e,
                        }],
                    );
                    out.insert("db.counts", vec![format!("{}/{}", self.db.node_count(), self.db.edge_count())]);
                    out.insert(
                        "triples",
                        fresh
                            .execute_sparql("SELECT ?s ?p ?o WHERE { ?s ?p ?o }")
                            .map(|r| {
                                let mut v: Vec<String> = r
                                    .rows
                                    .iter()
                                    .map(|row| match row.get(2) {
                                        Some(Value::String(s)) => s.strip_prefix('o').map_or(format!("?{s}"), |t| format!("t{t}")),
                                        other => format!("{other:?}"),
                                    })
                                    .collect();
                                v.sort();
                                v
                            })
                            .unwrap_or_else(|e| vec![format!("err:{e}")]),
                    );
                    out
                }
            }
        }
    };
}

system!(real, grafeo_engine, grafeo_common, grafeo_core::graph::lpg::Node);
system!(pin, pinned_engine, pinned_common, pinned_core::graph::lpg::Node);

// ------------------------------------------------------------------------------------------
// Execution of one history on the three systems
// ------------------------------------------------------------------------------------------

#[derive(Clone, Debug, Serialize, Deserialize)]
pub struct Config {
    /// "C01" | "C02"
    pub property: String,
    pub sessions: usize,
}

fn spec_dump(st: &SState) -> BTreeMap<&'static str, Vec<String>> {
    let mut out: BTreeMap<&'static str, Vec<String>> = BTreeMap::new();
    let rows: Vec<String> = {
        let mut v: Vec<String> = st.nodes.iter().map(|(s, n)| node_row(&format!("n{s}"), &n.labels, &n.props)).collect();
        v.sort();
        v
    };
    out.insert("unlabelled-scan", rows.clone());
    out.insert("get_node", rows);
    let mut ls = Vec::new();
    for l in LABELS {
        let mut v: Vec<String> = st.nodes.iter().filter(|(_, n)| n.labels.contains(l)).map(|(s, n)| format!("{l}:{}", node_row(&format!("n{s}"), &n.labels, &n.props))).collect();
        v.sort();
        ls.extend(v);
    }
    out.insert("label-scan", ls);
    let mut ex: Vec<String> = st.edges.iter().map(|(e, x)| format!("n{}-e{e}->n{} k={}", x.src, x.dst, x.k.map_or("null".to_string(), |v| v.to_string()))).collect();
    ex.sort();
    out.insert("expand", ex.clone());
    out.insert("get_edge", ex);
    let mut nb: Vec<String> = st.edges.iter().map(|(e, x)| format!("n{}-e{e}->n{}", x.src, x.dst)).collect();
    nb.sort();
    out.insert("neighbours", nb);
    let (mut cy, mut gr, mut gq) = (Vec::new(), Vec::new(), Vec::new());
    for l in LABELS {
        let mut v: Vec<String> = st.nodes.iter().filter(|(_, n)| n.labels.contains(l)).map(|(s, n)| format!("{l}:{}", node_row(&format!("n{s}"), &n.labels, &n.props))).collect();
        v.sort();
        cy.extend(v);
        let mut v: Vec<String> = st.nodes.iter().filter(|(_, n)| n.labels.contains(l)).map(|(s, _)| format!("{l}:n{s}")).collect();
        v.sort();
        gr.extend(v);
        let mut v: Vec<String> = st
            .nodes
            .values()
            .filter(|n| n.labels.contains(l))
            .map(|n| format!("{l}:k={},m={}", n.props.get("k").map_or("null".to_string(), |v| v.to_string()), n.props.get("m").map_or("null".to_string(), |v| v.to_string())))
            .collect();
        v.sort();
        gq.extend(v);
    }
    out.insert("cypher-label-scan", cy);
    out.insert("gremlin-hasLabel", gr);
    out.insert("graphql-label", gq);
    let mut nin: Vec<String> = st.edges.iter().map(|(e, x)| format!("n{}-e{e}->n{}", x.src, x.dst)).collect();
    nin.sort();
    out.insert("neighbours-in", nin);
    let mut deg = Vec::new();
    for s in st.nodes.keys() {
        let (o, i) = (st.edges.values().filter(|x| x.src == *s).count(), st.edges.values().filter(|x| x.dst == *s).count());
        if (o, i) != (0, 0) {
            deg.push(format!("n{s}:{o}/{i}"));
        }
    }
    out.insert("get_degree", deg);
    out.insert("db.iter_edges", {
        let mut v: Vec<String> = st.edges.keys().map(|e| format!("e{e}")).collect();
        v.sort();
        v
    });
    out.insert("aggregate", vec![format!("{}/{}", st.nodes.values().filter_map(|n| n.props.get("k")).sum::<i64>(), st.nodes.len())]);
    out.insert("db.counts", vec![format!("{}/{}", st.nodes.len(), st.edges.len())]);
    out.insert("triples", st.triples.iter().map(|t| format!("t{t}")).collect());
    out
}

/// Applies a control operation or mutation to the specification. Returns the expected
/// result class and, if a transaction ended, how.
pub fn spec_apply(spec: &mut Spec, op: &HOp, new_slot: usize, st: Option<usize>) -> (Vec<String>, Option<(&'static str, usize)>) {
    let mut expected: Vec<String> = vec!["ok".into()];
    let mut ended: Option<(&'static str, usize)> = None;
    match op {
        HOp::Begin(s) => {
            if spec.txs[*s].is_some() {
                expected = vec!["err".into()];
            } else {
                spec.txs[*s] = Some(STx { view: spec.cur.clone(), writes: Vec::new(), begin_seq: spec.commit_seq, ents: BTreeSet::new() });
            }
        }
        HOp::Commit(s) => match spec.txs[*s].take() {
            None => expected = vec!["err".into()],
            Some(tx) => {
                // first committer wins: refused if a transaction that committed after this
                // one began modified one of the same entities
                let conflict = spec.commit_log.iter().any(|(seq, ents)| *seq > tx.begin_seq && ents.iter().any(|e| tx.ents.contains(e)));
                if conflict {
                    expected = vec!["err:write-conflict".into()];
                    spec.discarded.extend(tx.writes);
                    ended = Some(("failed-commit", *s));
                } else {
                    for w in &tx.writes {
                        spec.cur.apply(w);
                    }
                    spec.commit_seq += 1;
                    spec.commit_log.push((spec.commit_seq, tx.ents));
                    ended = Some(("commit", *s));
                }
            }
        },
        HOp::Rollback(s) => match spec.txs[*s].take() {
            None => expected = vec!["err".into()],
            Some(tx) => {
                spec.discarded.extend(tx.writes);
                ended = Some(("rollback", *s));
            }
        },
        HOp::DropSession(s) => {
            if let Some(tx) = spec.txs[*s].take() {
                spec.discarded.extend(tx.writes);
                ended = Some(("drop", *s));
            }
        }
        HOp::CreateNode(_, ls) | HOp::DbCreateNode(ls) => {
            let labels: Vec<String> = ls.iter().map(|l| LABELS[*l as usize % 3].to_string()).collect();
            spec.write(st, W::CreateNode(new_slot, labels, vec![]));
        }
        HOp::CreateNodeProps(_, ls, k, v) => {
            let labels: Vec<String> = ls.iter().map(|l| LABELS[*l as usize % 3].to_string()).collect();
            spec.write(st, W::CreateNode(new_slot, labels, vec![(KEYS[*k as usize % 2].to_string(), *v)]));
        }
        HOp::InsertQ(_, l, k, v) | HOp::CypherCreate(_, l, k, v) => {
            spec.write(st, W::CreateNode(new_slot, vec![LABELS[*l as usize % 3].to_string()], vec![(KEYS[*k as usize % 2].to_string(), *v)]));
        }
        HOp::CreateEdge(_, a, b) => spec.write(st, W::CreateEdge(new_slot, *a, *b, None)),
        HOp::CreateEdgeQ(_, a, b, v) => spec.write(st, W::CreateEdge(new_slot, *a, *b, Some(*v))),
        HOp::SetPropQ(_, nn, k, v) | HOp::DbSetProp(nn, k, v) => spec.write(st, W::SetProp(*nn, KEYS[*k as usize % 2].to_string(), *v)),
        HOp::SetEdgePropQ(_, e, v) => spec.write(st, W::SetEdgeProp(*e, *v)),
        HOp::RemovePropQ(_, nn, k) => spec.write(st, W::RemoveProp(*nn, KEYS[*k as usize % 2].to_string())),
        HOp::AddLabelQ(_, nn, l) | HOp::DbAddLabel(nn, l) => spec.write(st, W::AddLabel(*nn, LABELS[*l as usize % 3].to_string())),
        HOp::RemoveLabelQ(_, nn, l) => spec.write(st, W::RemoveLabel(*nn, LABELS[*l as usize % 3].to_string())),
        HOp::DeleteNodeQ(_, nn) | HOp::DeleteNodePlainQ(_, nn) => spec.write(st, W::DetachDelete(*nn)),
        HOp::MatchCreatePathQ(_, a, l, v) => {
            // the statement matches nothing (and creates nothing) when the anchor is not in view
            if spec.view(st).nodes.contains_key(a) {
                let es = spec.next_eslot;
                spec.write(st, W::CreateNode(new_slot, vec![LABELS[*l as usize % 3].to_string()], vec![("k".to_string(), *v)]));
                spec.write(st, W::CreateEdge(es, *a, new_slot, Some(*v)));
            }
        }
        HOp::DbDeleteEdge(e) => spec.write(None, W::DeleteEdge(*e)),
        HOp::DeleteEdgeQ(_, e) => spec.write(st, W::DeleteEdge(*e)),
        HOp::TripleInsert(_, t) => spec.write(st, W::TripleIns(*t)),
        HOp::TripleDelete(_, t) => spec.write(st, W::TripleDel(*t)),
        _ => {}
    }
    (expected, ended)
}

pub struct ExecResult {
    pub findings: Vec<(String, String)>,
    pub probes: BTreeMap<&'static str, u64>,
    pub steps_done: usize,
    pub nontrivial: bool,
    pub log: Vec<String>,
    pub digest: u64,
}

fn ok_class(v: &[String]) -> String {
    // mutation / control results are compared by class: ok-ish vs error
    match v.first().map(String::as_str) {
        Some(x) if x.starts_with("err") || x.starts_with("Err") => "err".to_string(),
        Some("skipped") => "skipped".to_string(),
        Some("created-without-id") | Some("created-nothing") => v[0].clone(),
        Some(_) => "ok".to_string(),
        None => "ok".to_string(),
    }
}

/// Classifies how an observed answer relates to alternative (wrong) views of the history.
fn explain(spec: &Spec, s: Option<usize>, op: &HOp, got: &[String]) -> &'static str {
    let own = s.and_then(|s| spec.txs.get(s)).and_then(|t| t.as_ref());
    // latest committed (+ own writes): sees commits made after the snapshot
    let mut latest = spec.cur.clone();
    if let Some(tx) = own {
        for w in &tx.writes {
            latest.apply(w);
        }
    }
    if spec_observe(&latest, op) == got {
        return "sees-commits-after-snapshot";
    }
    // dirty: view + writes of every other open transaction
    let base = spec.view(s).clone();
    let mut dirty = base.clone();
    let mut dirty_latest = latest.clone();
    for (i, t) in spec.txs.iter().enumerate() {
        if Some(i) == s {
            continue;
        }
        if let Some(t) = t {
            for w in &t.writes {
                dirty.apply(w);
                dirty_latest.apply(w);
            }
        }
    }
    if spec_observe(&dirty, op) == got || spec_observe(&dirty_latest, op) == got {
        return "sees-uncommitted-writes-of-others";
    }
    // own writes invisible
    if let Some(tx) = own {
        if !tx.writes.is_empty() {
            // the snapshot without own writes is not stored; approximate with the committed
            // state at the time (cur) – exact when nobody committed since the begin
            if spec_observe(&spec.cur, op) == got {
                return "own-writes-invisible";
            }
        }
    }
    // residue of discarded transactions
    let mut res = base;
    for w in &spec.discarded {
        res.apply(w);
    }
    if spec_observe(&res, op) == got {
        return "sees-rolled-back-writes";
    }
    "other"
}

pub fn exec(cfg: &Config, ops: &[HOp]) -> ExecResult {
    let n = cfg.sessions;
    let mut real = real::Sys::new(n);
    let mut pin = pin::Sys::new(n);
    let mut spec = Spec { cur: SState::default(), txs: vec![None; n], discarded: Vec::new(), commit_seq: 0, commit_log: Vec::new(), next_eslot: 0 };
    let mut findings: Vec<(String, String)> = Vec::new();
    let mut probes: BTreeMap<&'static str, u64> = BTreeMap::new();
    let mut log: Vec<String> = Vec::new();
    let (mut n_slots, mut e_slots) = (0usize, 0usize);
    let mut steps_done = 0;
    let mut digest = 0u64;
    let mut overlap_obs = 0u64;
    let prop = cfg.property.as_str();
    let mut tx_kinds: Vec<BTreeSet<&'static str>> = vec![BTreeSet::new(); n];
    let mut push = |findings: &mut Vec<(String, String)>, sig: String, detail: String| {
        if !findings.iter().any(|(s, _)| *s == sig) {
            findings.push((sig, detail));
        }
    };

    'ops: for (i, op) in ops.iter().enumerate() {
        let s = op.session();
        if let Some(s) = s {
            if s >= n {
                continue;
            }
        }
        // slot for creations
        let (is_node_create, is_edge_create) = (
            matches!(op, HOp::CreateNode(..) | HOp::CreateNodeProps(..) | HOp::InsertQ(..) | HOp::DbCreateNode(_) | HOp::CypherCreate(..) | HOp::MatchCreatePathQ(..)),
            matches!(op, HOp::CreateEdge(..) | HOp::CreateEdgeQ(..) | HOp::MatchCreatePathQ(..)),
        );
        let new_slot = if is_node_create { n_slots } else { e_slots };
        real.next_eslot = e_slots;
        pin.next_eslot = e_slots;
        spec.next_eslot = e_slots;
        // ---- the two real systems ----
        let r_real = match guarded(|| real.step(op, new_slot)) {
            Ok(r) => r,
            Err(p) => {
                push(&mut findings, format!("{prop} | path={} | panic | {}", op.kind(), panic_class(&p)), format!("step {i}: {p}"));
                break 'ops;
            }
        };
        let r_pin = guarded(|| pin.step(op, new_slot)).unwrap_or_else(|p| vec![format!("panic:{p}")]);
        // ---- the specification ----
        let in_tx = s.is_some_and(|s| spec.txs[s].is_some());
        let st = if in_tx { s } else { None };
        let (expected, ended) = spec_apply(&mut spec, op, new_slot, st);
        if let HOp::Begin(b) = op {
            if expected[0] == "ok" {
                tx_kinds[*b].clear();
            }
        }
        if is_node_create {
            n_slots += 1;
        }
        if is_edge_create {
            e_slots += 1;
        }
        if let Some(s) = s {
            if in_tx && !op.is_observation() && !matches!(op, HOp::Begin(_) | HOp::Commit(_) | HOp::Rollback(_) | HOp::DropSession(_)) {
                tx_kinds[s].insert(op.kind());
            }
        }
        steps_done = i + 1;
        let reader = if in_tx { "in-transaction" } else { "autocommit" };
        if op.is_observation() {
            let want = spec_observe(spec.view(st), op);
            let others_open = spec.txs.iter().enumerate().any(|(j, t)| Some(j) != s && t.is_some());
            if others_open || in_tx {
                overlap_obs += 1;
            }
            digest = digest.rotate_left(5) ^ fnv(r_real.join("|").as_bytes());
            log.push(format!("{i}: {:?} -> {:?}", op, r_real));
            if r_real != want {
                if prop == "C01" {
                    let why = explain(&spec, st, op, &r_real);
                    // A deviation that is byte-for-byte the pinned tree's own answer on this
                    // history is identified by access path and reader context; any other
                    // deviation carries its anomaly class and is never listed as known.
                    let two_hop = matches!(op, HOp::TwoHop(_) | HOp::TwoHopCount(_) | HOp::TwoHopSum(_));
                    let sig = if r_real == r_pin {
                        format!("C01 | path={} | reader={reader} | answer-as-pinned-tree", op.kind())
                    } else if two_hop && real.side.as_ref() == Some(&r_real) {
                        // the pinned tree's factorized chain differs from the working tree's by a
                        // repair (034eb0a), so it cannot classify these paths; a two-hop answer
                        // that is exactly the join of the same session's single-hop expand answer
                        // at the same instant inherits that path's (listed) deviation and nothing else
                        format!("C01 | path={} | reader={reader} | equals-join-of-own-single-hop-expand", op.kind())
                    } else {
                        format!("C01 | path={} | reader={reader} | anomaly={why} | differs-from-pinned-tree", op.kind())
                    };
                    push(
                        &mut findings,
                        sig,
                        format!("step {i}: anomaly class {why}: observed {:?}, specification {:?}, pinned tree {:?}", r_real, want, r_pin),
                    );
                    *probes.entry("observation_deviated_from_spec").or_insert(0) += 1;
                    *probes
                        .entry(match why {
                            "sees-commits-after-snapshot" => "anomaly_sees_commits_after_snapshot",
                            "sees-uncommitted-writes-of-others" => "anomaly_sees_uncommitted_writes_of_others",
                            "own-writes-invisible" => "anomaly_own_writes_invisible",
                            "sees-rolled-back-writes" => "anomaly_sees_rolled_back_writes",
                            _ => "anomaly_other",
                        })
                        .or_insert(0) += 1;
                }
            } else {
                *probes.entry("observation_equal_to_spec").or_insert(0) += 1;
            }
        } else {
            log.push(format!("{i}: {:?} -> {:?}", op, r_real));
            digest = digest.rotate_left(5) ^ fnv(op.kind().as_bytes());
            let (got_c, want_c, pin_c) = (ok_class(&r_real), ok_class(&expected), ok_class(&r_pin));
            // mutations addressed to something the spec view does not contain are "skipped"
            // nowhere: the statement simply matches nothing, which is ok as well
            if got_c != want_c && !(got_c == "skipped") {
                let vs_pin = if got_c == pin_c { " | answer-as-pinned-tree" } else { " | differs-from-pinned-tree" };
                push(
                    &mut findings,
                    format!("{prop} | path={} | reader={reader} | result={got_c}-expected-{want_c}{vs_pin}", op.kind()),
                    format!("step {i}: {:?} vs expected {:?} (pinned tree {:?})", r_real, expected, r_pin),
                );
                break 'ops;
            }
        }
        // ---- state check at transaction ends / quiescent points ----
        let quiescent = spec.txs.iter().all(|t| t.is_none());
        if let Some((end, sidx)) = ended {
            // C02 looks at every transaction end: what a fresh reader finds must be the
            // committed state (transactions still open elsewhere contribute nothing)
            if quiescent || prop == "C02" {
                if !quiescent {
                    *probes.entry("state_checked_while_other_transactions_open").or_insert(0) += 1;
                }
                let d_real = match guarded(|| real.dump(n_slots, e_slots)) {
                    Ok(d) => d,
                    Err(p) => {
                        push(&mut findings, format!("{prop} | dump | panic | {}", panic_class(&p)), p);
                        break 'ops;
                    }
                };
                let d_pin = guarded(|| pin.dump(n_slots, e_slots)).unwrap_or_default();
                let d_spec = spec_dump(&spec.cur);
                let mut diverged = false;
                let mut beyond_pinned = false;
                for (key, want) in &d_spec {
                    let got = d_real.get(key).cloned().unwrap_or_default();
                    if got != *want {
                        diverged = true;
                        if Some(&got) != d_pin.get(key) {
                            beyond_pinned = true;
                        }
                        if prop == "C02" {
                            let kinds: Vec<&str> = tx_kinds[sidx].iter().copied().collect();
                            let kinds = if kinds.is_empty() { "none".to_string() } else { kinds.join("+") };
                            let sig = if Some(&got) == d_pin.get(key) {
                                format!("C02 | end={end} | wrong-in={key} | state-as-pinned-tree")
                            } else {
                                format!("C02 | end={end} | tx-writes={kinds} | wrong-in={key} | differs-from-pinned-tree")
                            };
                            push(&mut findings, sig, format!("step {i}: transaction wrote via {kinds}; {key}: observed {:?}, specification {:?}, pinned tree {:?}", got, want, d_pin.get(key)));
                        }
                    }
                }
                if diverged {
                    // C01/C02: a state that deviates from the specification exactly as the pinned
                    // tree's does on the same history is a (listed) finding of that tree; the run
                    // goes on, so that later transaction ends are still judged (real = spec or
                    // real = pinned tree, per access path). Anything else ends the run.
                    if (prop == "C02" || prop == "C01") && !beyond_pinned {
                        *probes.entry("run_continued_after_state_divergence_shared_with_pinned_tree").or_insert(0) += 1;
                    } else {
                        *probes.entry("run_stopped_on_state_divergence").or_insert(0) += 1;
                        break 'ops;
                    }
                } else {
                    *probes.entry("transaction_end_state_equal_to_spec").or_insert(0) += 1;
                }
            }
        }
    }
    ExecResult { findings, probes, steps_done, nontrivial: overlap_obs > 0 || cfg.property == "C02", log, digest }
}

// ------------------------------------------------------------------------------------------
// Generation
// ------------------------------------------------------------------------------------------

const MUT_KINDS: usize = 17;

struct Gen<'a> {
    rng: &'a mut Prng,
    spec: Spec,
    n_slots: usize,
    e_slots: usize,
    uniq: i64,
    /// node slot → session whose open transaction wrote it
    locked_n: BTreeMap<usize, usize>,
    locked_e: BTreeMap<usize, usize>,
    ops: Vec<HOp>,
    /// C03 mode: no write locks, so overlapping transactions do write the same entity
    allow_conflicts: bool,
}

impl Gen<'_> {
    fn st(&self, s: usize) -> Option<usize> {
        if self.spec.txs[s].is_some() { Some(s) } else { None }
    }
    fn free_nodes(&self, s: usize) -> Vec<usize> {
        let free = self.allow_conflicts;
        let begin = self.spec.txs[s].as_ref().map(|t| t.begin_seq);
        let stale = |is_edge: bool, slot: usize| -> bool {
            // modified by a commit after this transaction began: writing it now would be a
            // write-write conflict, which these histories leave to C03
            begin.is_some_and(|b| self.spec.commit_log.iter().any(|(seq, ents)| *seq > b && ents.contains(&(is_edge, slot))))
        };
        self.spec.view(self.st(s)).nodes.keys().copied().filter(|n| free || (self.locked_n.get(n).is_none_or(|o| *o == s) && !stale(false, *n))).collect()
    }
    fn free_edges(&self, s: usize) -> Vec<usize> {
        let v = self.spec.view(self.st(s));
        if self.allow_conflicts {
            return v.edges.keys().copied().collect();
        }
        let begin = self.spec.txs[s].as_ref().map(|t| t.begin_seq);
        let stale = |is_edge: bool, slot: usize| -> bool { begin.is_some_and(|b| self.spec.commit_log.iter().any(|(seq, ents)| *seq > b && ents.contains(&(is_edge, slot)))) };
        v.edges
            .iter()
            .filter(|(e, x)| !stale(true, **e) && !stale(false, x.src) && !stale(false, x.dst))
            .filter(|(e, x)| self.locked_e.get(e).is_none_or(|o| *o == s) && self.locked_n.get(&x.src).is_none_or(|o| *o == s) && self.locked_n.get(&x.dst).is_none_or(|o| *o == s))
            .map(|(e, _)| *e)
            .collect()
    }
    fn emit(&mut self, op: HOp) {
        let s = op.session();
        let in_tx = s.is_some_and(|s| self.spec.txs[s].is_some());
        let st = if in_tx { s } else { None };
        let is_n = matches!(op, HOp::CreateNode(..) | HOp::CreateNodeProps(..) | HOp::InsertQ(..) | HOp::DbCreateNode(_) | HOp::CypherCreate(..) | HOp::MatchCreatePathQ(..));
        let is_e = matches!(op, HOp::CreateEdge(..) | HOp::CreateEdgeQ(..) | HOp::MatchCreatePathQ(..));
        let slot = if is_n { self.n_slots } else { self.e_slots };
        self.spec.next_eslot = self.e_slots;
        // locks
        if let (Some(s), true) = (s, in_tx) {
            match &op {
                HOp::SetPropQ(_, n, ..) | HOp::RemovePropQ(_, n, _) | HOp::AddLabelQ(_, n, _) | HOp::RemoveLabelQ(_, n, _) => {
                    self.locked_n.insert(*n, s);
                }
                HOp::DeleteNodeQ(_, n) | HOp::DeleteNodePlainQ(_, n) => {
                    self.locked_n.insert(*n, s);
                    let inc: Vec<usize> = self.spec.view(st).edges.iter().filter(|(_, x)| x.src == *n || x.dst == *n).map(|(e, _)| *e).collect();
                    for e in inc {
                        self.locked_e.insert(e, s);
                    }
                }
                HOp::SetEdgePropQ(_, e, _) | HOp::DeleteEdgeQ(_, e) => {
                    self.locked_e.insert(*e, s);
                    // its endpoints must not be detach-deleted by someone else meanwhile
                    if let Some(x) = self.spec.view(st).edges.get(e) {
                        let (a, b) = (x.src, x.dst);
                        self.locked_n.entry(a).or_insert(s);
                        self.locked_n.entry(b).or_insert(s);
                    }
                }
                HOp::CreateEdge(_, a, b) | HOp::CreateEdgeQ(_, a, b, _) => {
                    // endpoints must not be deleted by someone else meanwhile
                    self.locked_n.insert(*a, s);
                    self.locked_n.insert(*b, s);
                }
                HOp::MatchCreatePathQ(_, a, ..) => {
                    self.locked_n.insert(*a, s);
                }
                _ => {}
            }
            if is_n {
                self.locked_n.insert(slot, s);
            }
            if is_e {
                self.locked_e.insert(self.e_slots, s);
            }
        }
        let (_, ended) = spec_apply(&mut self.spec, &op, slot, st);
        if let Some((_, sidx)) = ended {
            self.locked_n.retain(|_, o| *o != sidx);
            self.locked_e.retain(|_, o| *o != sidx);
        }
        if is_n {
            self.n_slots += 1;
        }
        if is_e {
            self.e_slots += 1;
        }
        self.ops.push(op);
    }

    /// One mutation of the given kind by session `s` (None if no valid target).
    fn mutation(&mut self, s: usize, kind: usize) -> Option<HOp> {
        self.uniq += 1;
        let u = self.uniq;
        let nodes = self.free_nodes(s);
        let edges = self.free_edges(s);
        let in_tx = self.spec.txs[s].is_some();
        let mut incident_of: BTreeMap<usize, Vec<usize>> = BTreeMap::new();
        for (e, x) in &self.spec.view(self.st(s)).edges {
            incident_of.entry(x.src).or_default().push(*e);
            incident_of.entry(x.dst).or_default().push(*e);
        }
        let rng = &mut *self.rng;
        let pickn = |rng: &mut Prng| -> Option<usize> { if nodes.is_empty() { None } else { Some(*rng.pick(&nodes)) } };
        Some(match kind {
            0 => HOp::CreateNode(s, (0..rng.range(0, 2)).map(|_| rng.below(3) as u8).collect()),
            1 => HOp::CreateNodeProps(s, vec![rng.below(3) as u8], rng.below(2) as u8, u),
            2 => HOp::InsertQ(s, rng.below(3) as u8, rng.below(2) as u8, u),
            3 => HOp::CreateEdge(s, pickn(rng)?, pickn(rng)?),
            4 => HOp::CreateEdgeQ(s, pickn(rng)?, pickn(rng)?, u),
            5 => HOp::SetPropQ(s, pickn(rng)?, rng.below(2) as u8, u),
            6 => HOp::SetEdgePropQ(s, if edges.is_empty() { return None } else { *rng.pick(&edges) }, u),
            7 => HOp::RemovePropQ(s, pickn(rng)?, rng.below(2) as u8),
            8 => HOp::AddLabelQ(s, pickn(rng)?, rng.below(3) as u8),
            9 => HOp::RemoveLabelQ(s, pickn(rng)?, rng.below(3) as u8),
            10 => {
                // every incident edge (in this session's view) must be free as well
                let cands: Vec<usize> = nodes.iter().copied().filter(|n| incident_of.get(n).is_none_or(|es| es.iter().all(|e| edges.contains(e)))).collect();
                if cands.is_empty() {
                    return None;
                }
                HOp::DeleteNodeQ(s, *rng.pick(&cands))
            }
            11 => HOp::TripleInsert(s, rng.below(u64::from(N_TRIPLES)) as u8),
            12 => HOp::TripleDelete(s, rng.below(u64::from(N_TRIPLES)) as u8),
            14 => HOp::CypherCreate(s, rng.below(3) as u8, rng.below(2) as u8, u),
            15 => {
                let cands: Vec<usize> = nodes.iter().copied().filter(|n| !incident_of.contains_key(n)).collect();
                if cands.is_empty() {
                    return None;
                }
                HOp::DeleteNodePlainQ(s, *rng.pick(&cands))
            }
            16 => HOp::MatchCreatePathQ(s, pickn(rng)?, rng.below(3) as u8, u),
            // direct API: only outside a transaction of this session and on unlocked targets
            _ => {
                if in_tx {
                    return None;
                }
                match rng.below(4) {
                    0 => HOp::DbCreateNode(vec![rng.below(3) as u8]),
                    1 => HOp::DbSetProp(pickn(rng)?, rng.below(2) as u8, u),
                    2 => HOp::DbDeleteEdge(if edges.is_empty() { return None } else { *rng.pick(&edges) }),
                    _ => HOp::DbAddLabel(pickn(rng)?, rng.below(3) as u8),
                }
            }
        })
    }

    fn observation(&mut self, s: usize) -> HOp {
        let all_n = self.n_slots.max(1);
        let all_e = self.e_slots.max(1);
        let uniq = self.uniq;
        let rng = &mut *self.rng;
        if rng.chance(2, 5) {
            // the further access paths: other languages, aggregates, direct accessors
            return match rng.below(19) {
                0 => HOp::CypherLabelScan(s, rng.below(3) as u8),
                1 => HOp::ParamsLabelScan(s, rng.below(3) as u8),
                2 => HOp::GremlinLabel(s, rng.below(3) as u8),
                3 => HOp::GremlinOut(s),
                4 => HOp::GraphqlLabel(s, rng.below(3) as u8),
                5 => HOp::SumCount(s),
                6 => HOp::FilterGt(s, rng.range(0, uniq.max(1) as u64) as i64),
                7 => HOp::EdgeCount(s),
                8 => HOp::GetNodeProp(s, rng.usize(all_n), rng.below(2) as u8),
                9 => HOp::NeighborsIn(s, rng.usize(all_n)),
                10 => HOp::NeighborsOutByType(s, rng.usize(all_n)),
                11 => HOp::EdgeExists(s, rng.usize(all_e)),
                12 => HOp::Degree(s, rng.usize(all_n)),
                13 => HOp::TriplesBySubject(s, rng.below(2) as u8),
                14 => HOp::DbIterEdges,
                15 => HOp::TwoHop(s),
                16 => HOp::TwoHopCount(s),
                17 => HOp::TwoHopSum(s),
                _ => HOp::DbGetNode(rng.usize(all_n)),
            };
        }
        match rng.below(13) {
            0 | 1 => HOp::LabelScan(s, rng.below(3) as u8),
            2 | 3 => HOp::AllScan(s),
            4 => HOp::Expand(s),
            5 => HOp::Count(s),
            6 => HOp::GetNode(s, rng.usize(all_n)),
            7 => HOp::GetEdge(s, rng.usize(all_e)),
            8 => HOp::NodeExists(s, rng.usize(all_n)),
            9 => HOp::NodesBatch(s, (0..rng.range(1, 3)).map(|_| rng.usize(all_n)).collect()),
            10 => HOp::NeighborsOut(s, rng.usize(all_n)),
            11 => HOp::Triples(s),
            _ => {
                if rng.chance(1, 2) {
                    HOp::DbCounts
                } else {
                    HOp::DbIterNodes
                }
            }
        }
    }
}

pub fn generate(rng: &mut Prng, property: &str, thorough: bool) -> (Config, Vec<HOp>) {
    let c02 = property == "C02";
    let sessions = rng.range(2, 4) as usize;
    let len = rng.range(6, if thorough { 60 } else { 36 }) as usize;
    // swarm: which mutation kinds exist in this run
    let mut kinds: Vec<usize> = (0..MUT_KINDS).filter(|_| rng.chance(1, 2)).collect();
    if kinds.is_empty() {
        kinds.push(rng.usize(MUT_KINDS));
    }
    if !kinds.iter().any(|k| *k <= 2) {
        kinds.push(rng.usize(3)); // some way to make nodes
    }
    if property == "C03" {
        kinds = vec![5, 5, 6, 7, 8, 9, 10, 1];
    }
    let rollback_w = if rng.chance(1, 3) { 0 } else { rng.range(1, 3) };
    let mut g = Gen { rng, spec: Spec { cur: SState::default(), txs: vec![None; sessions], discarded: vec![], commit_seq: 0, commit_log: vec![], next_eslot: 0 }, n_slots: 0, e_slots: 0, uniq: 0, locked_n: BTreeMap::new(), locked_e: BTreeMap::new(), ops: Vec::new(), allow_conflicts: property == "C03" };
    // a little committed data to start from
    for _ in 0..g.rng.range(0, 3) {
        let k = *g.rng.pick(&[0usize, 1, 2]);
        if let Some(op) = g.mutation(0, k) {
            g.emit(op);
        }
    }
    let c02_single = c02 && g.rng.chance(1, 2);
    if c02_single {
        // one transaction at a time under the microscope (session 0); the others only do
        // auto-commit work and look
        while g.ops.len() < len {
            // interleaved committed work
            for _ in 0..g.rng.range(0, 2) {
                let s = 1 + g.rng.usize(sessions - 1);
                let k = *g.rng.pick(&kinds);
                if let Some(op) = g.mutation(s, k) {
                    g.emit(op);
                }
            }
            g.emit(HOp::Begin(0));
            let homogeneous = g.rng.chance(7, 10);
            let k0 = *g.rng.pick(&kinds);
            for _ in 0..g.rng.range(1, 4) {
                let k = if homogeneous { k0 } else { *g.rng.pick(&kinds) };
                if let Some(op) = g.mutation(0, k) {
                    g.emit(op);
                }
                if g.rng.chance(1, 3) {
                    let s = 1 + g.rng.usize(sessions - 1);
                    let k = *g.rng.pick(&kinds);
                    if let Some(op) = g.mutation(s, k) {
                        g.emit(op);
                    }
                }
            }
            let end = match g.rng.below(5) {
                0 | 1 => HOp::Commit(0),
                2 | 3 => HOp::Rollback(0),
                _ => HOp::DropSession(0),
            };
            g.emit(end);
        }
    } else {
        while g.ops.len() < len {
            let s = g.rng.usize(sessions);
            let in_tx = g.spec.txs[s].is_some();
            let r = g.rng.below(20);
            if !in_tx && r < 4 {
                g.emit(HOp::Begin(s));
            } else if in_tx && r < 3 {
                g.emit(HOp::Commit(s));
                // every session looks right after a commit
                for t in 0..sessions {
                    let o = g.observation(t);
                    g.emit(o);
                }
            } else if in_tx && r < 3 + rollback_w {
                let drop_it = g.rng.chance(1, 5);
                g.emit(if drop_it { HOp::DropSession(s) } else { HOp::Rollback(s) });
                for t in 0..sessions {
                    let o = g.observation(t);
                    g.emit(o);
                }
            } else if r < 12 {
                let k = *g.rng.pick(&kinds);
                if let Some(op) = g.mutation(s, k) {
                    g.emit(op);
                    if g.rng.chance(1, 2) {
                        let t = g.rng.usize(sessions);
                        let o = g.observation(t);
                        g.emit(o);
                    }
                }
            } else {
                let o = g.observation(s);
                // repeat-read inside a transaction: the same observation again later
                g.emit(o.clone());
                if in_tx && g.rng.chance(1, 3) {
                    let t = g.rng.usize(sessions);
                    let k = *g.rng.pick(&kinds);
                    if t != s {
                        if let Some(op) = g.mutation(t, k) {
                            g.emit(op);
                        }
                    }
                    g.emit(o);
                }
            }
        }
        // close everything so that the final state check runs
        for s in 0..sessions {
            if g.spec.txs[s].is_some() {
                g.emit(HOp::Commit(s));
            }
        }
    }
    let ops = g.ops;
    (Config { property: property.to_string(), sessions }, ops)
}

fn run_guarded(cfg: &Config, ops: &[HOp]) -> ExecResult {
    match guarded(|| exec(cfg, ops)) {
        Ok(r) => r,
        Err(msg) => ExecResult { findings: vec![(format!("{} | harness-panic | {}", cfg.property, panic_class(&msg)), msg)], probes: BTreeMap::new(), steps_done: 0, nontrivial: false, log: vec![], digest: 0 },
    }
}

pub fn replay_doc(cfg: &Config, ops: &[HOp]) -> serde_json::Value {
    json!({"engine": "HIST", "config": cfg, "ops": ops, "schedule": "total order of the listed operations (one OS thread)", "faults": []})
}

pub fn run_one(seed: u64, property: &'static str, thorough: bool) -> RunOut {
    let mut rng = Prng::new(seed);
    let (cfg, ops) = generate(&mut rng, property, thorough);
    let res = run_guarded(&cfg, &ops);
    let mut out = RunOut::default();
    out.hash = fnv(&serde_json::to_vec(&ops).unwrap());
    out.shape = fnv(ops.iter().map(|o| format!("{}{}", o.kind(), o.session().unwrap_or(9))).collect::<Vec<_>>().join(",").as_bytes());
    out.nontrivial = res.nontrivial;
    out.steps = res.steps_done as u64;
    out.probes = res.probes;
    out.digest = res.digest;
    if ops.len() <= 16 {
        out.sample = Some(json!({"seed": seed, "config": cfg, "ops": ops, "log": res.log}));
    }
    for (sig, detail) in res.findings {
        out.findings.push(Finding { property: property.to_string(), signature: sig, detail, replay: replay_doc(&cfg, &ops) });
    }
    out
}

pub fn minimise(f: &Finding) -> Finding {
    let cfg: Config = serde_json::from_value(f.replay["config"].clone()).unwrap();
    let ops: Vec<HOp> = serde_json::from_value(f.replay["ops"].clone()).unwrap();
    let sig = f.signature.clone();
    // Removing an operation that creates an entity shifts the slots of later creations; the
    // executor tolerates dangling slots ("skipped"), so plain ddmin with the same-signature
    // criterion is sound, if not always minimal.
    let mut fails = |cand: &[HOp]| run_guarded(&cfg, cand).findings.iter().any(|(s, _)| *s == sig);
    let small = if fails(&ops) { crate::fw::ddmin(&ops, &mut fails, 500) } else { ops.clone() };
    let res = run_guarded(&cfg, &small);
    let detail = res.findings.iter().find(|(s, _)| *s == sig).map(|(_, d)| d.clone()).unwrap_or_else(|| f.detail.clone());
    let mut doc = replay_doc(&cfg, &small);
    doc["log"] = json!(res.log);
    doc["original_len"] = json!(ops.len());
    Finding { property: f.property.clone(), signature: sig, detail, replay: doc }
}

pub fn replay(doc: &serde_json::Value) -> Vec<(String, String)> {
    let cfg: Config = serde_json::from_value(doc["config"].clone()).unwrap();
    let ops: Vec<HOp> = serde_json::from_value(doc["ops"].clone()).unwrap();
    let res = run_guarded(&cfg, &ops);
    for l in &res.log {
        println!("  {l}");
    }
    res.findings
}
