//! SPILL — the spilling sort and the spilling hash aggregate with the disk under the
//! simulator's control (C17: "the same result whether it fits in memory or spills to disk
//! under any memory budget ... spill files are removed afterwards").
//!
//! One run = one table, one operator, one memory budget (spill threshold), one write-buffer
//! size and one fault plan. The spill files go through the file seam (`spill/file.rs`,
//! `spill/manager.rs`): the simulator counts every create/write/read/open/remove and makes the
//! n-th one fail (hard error, from then on or once) or return EINTR once. Oracles: the same
//! operator without spilling, a brute-force model, and the directory listing afterwards.

use std::collections::BTreeMap;
use std::path::PathBuf;
use std::sync::Arc;

use grafeo_common::types::Value;
use grafeo_core::execution::operators::push::{
    AggregateExpr, AggregatePushOperator, NullOrder, SortDirection, SortKey, SortPushOperator, SpillableAggregatePushOperator, SpillableSortPushOperator,
};
use grafeo_core::execution::pipeline::PushOperator;
use grafeo_core::execution::spill::SpillManager;
use grafeo_core::execution::{CollectorSink, DataChunk, ValueVector};
use serde::{Deserialize, Serialize};
use serde_json::json;

use crate::fw::{Finding, RunOut, guarded, panic_class};
use crate::prng::{Prng, fnv};

#[derive(Clone, Debug, PartialEq, Serialize, Deserialize)]
pub enum Kind {
    /// sort keys: (column, descending, nulls first)
    Sort(Vec<(usize, bool, bool)>),
    /// group-by columns; aggregates are count(*), count(0), sum(0), min(0), max(0)
    Agg(Vec<usize>),
}

#[derive(Clone, Debug, PartialEq, Serialize, Deserialize)]
pub enum Fault {
    None,
    /// the n-th file operation (0-based, counted over create/open/write/read/remove) fails
    /// with a hard error; `sticky`: so does every later one (disk full / device gone)
    Hard { at: u64, sticky: bool, storage_full: bool },
    /// the n-th file operation returns EINTR once
    Eintr { at: u64 },
}

#[derive(Clone, Debug, Serialize, Deserialize)]
pub struct Scenario {
    pub rows: usize,
    pub chunk_size: usize,
    pub kind: Kind,
    /// spill threshold (rows buffered / groups held)
    pub threshold: usize,
    /// cap on the spill files' write buffer (None = the code's 64 KiB)
    pub buf_cap: Option<u64>,
    pub fault: Fault,
    /// value domains: column 0 ints (with nulls every `null_every`, 0 = never), column 1 group
    /// key domain, column 2 strings of that many distinct values
    pub dom0: i64,
    pub dom1: i64,
    pub dom2: u64,
    pub null_every: usize,
    pub table_seed: u64,
}

fn table(sc: &Scenario) -> Vec<Vec<Value>> {
    let mut rng = Prng::new(sc.table_seed);
    let mut rows = Vec::with_capacity(sc.rows);
    for i in 0..sc.rows {
        let c0 = if sc.null_every > 0 && i % sc.null_every == sc.null_every - 1 {
            Value::Null
        } else {
            Value::Int64(rng.below(sc.dom0.max(1) as u64) as i64 - sc.dom0 / 2)
        };
        let c1 = Value::Int64(rng.below(sc.dom1.max(1) as u64) as i64);
        let c2 = Value::String(format!("s{}", rng.below(sc.dom2.max(1))).as_str().into());
        rows.push(vec![c0, c1, c2]);
    }
    rows
}

fn chunks(rows: &[Vec<Value>], chunk_size: usize) -> Vec<DataChunk> {
    rows.chunks(chunk_size.max(1))
        .map(|part| {
            let cols: Vec<ValueVector> = (0..3).map(|c| ValueVector::from_values(&part.iter().map(|r| r[c].clone()).collect::<Vec<_>>())).collect();
            DataChunk::new(cols)
        })
        .collect()
}

fn rows_of(chs: &[DataChunk]) -> Vec<Vec<Value>> {
    let mut rows = Vec::new();
    for ch in chs {
        for idx in ch.selected_indices() {
            let mut r = Vec::new();
            for c in 0..ch.column_count() {
                r.push(ch.column(c).and_then(|col| col.get_value(idx)).unwrap_or(Value::Null));
            }
            rows.push(r);
        }
    }
    rows
}

fn keys_of(sc: &Scenario) -> Vec<SortKey> {
    match &sc.kind {
        Kind::Sort(ks) => ks
            .iter()
            .map(|(c, desc, nf)| SortKey {
                column: *c,
                direction: if *desc { SortDirection::Descending } else { SortDirection::Ascending },
                null_order: if *nf { NullOrder::First } else { NullOrder::Last },
            })
            .collect(),
        Kind::Agg(_) => vec![],
    }
}

fn aggs() -> Vec<AggregateExpr> {
    vec![AggregateExpr::count_star(), AggregateExpr::count(0), AggregateExpr::sum(0), AggregateExpr::min(0), AggregateExpr::max(0)]
}

/// Runs an operator over the chunks; Err = the operator reported an error.
fn drive(op: &mut dyn PushOperator, input: &[DataChunk]) -> Result<Vec<Vec<Value>>, String> {
    let mut sink = CollectorSink::new();
    for ch in input {
        op.push(ch.clone(), &mut sink).map_err(|e| e.to_string())?;
    }
    op.finalize(&mut sink).map_err(|e| e.to_string())?;
    Ok(rows_of(&sink.into_chunks()))
}

fn fmt_row(r: &[Value]) -> String {
    r.iter().map(|v| format!("{v:?}")).collect::<Vec<_>>().join("|")
}

/// Canonical form of a result: for sorts the sequence of key tuples plus the multiset of rows,
/// for aggregates the sorted list of group rows (sums normalised to integers).
fn canon(sc: &Scenario, rows: &[Vec<Value>]) -> (Vec<String>, Vec<String>) {
    match &sc.kind {
        Kind::Sort(ks) => {
            let keyseq: Vec<String> = rows.iter().map(|r| ks.iter().map(|(c, _, _)| format!("{:?}", r.get(*c))).collect::<Vec<_>>().join("|")).collect();
            let mut multi: Vec<String> = rows.iter().map(|r| fmt_row(r)).collect();
            multi.sort();
            (keyseq, multi)
        }
        Kind::Agg(gb) => {
            let mut v: Vec<String> = rows
                .iter()
                .map(|r| {
                    let n = gb.len();
                    let key = r.iter().take(n).map(|v| format!("{v:?}")).collect::<Vec<_>>().join("|");
                    let sum = match r.get(n + 2) {
                        Some(Value::Int64(i)) => format!("{i}"),
                        Some(Value::Float64(f)) => format!("{}", *f as i64),
                        other => format!("{other:?}"),
                    };
                    format!("[{key}] count*={:?} count0={:?} sum={sum} min={:?} max={:?}", r.get(n), r.get(n + 1), r.get(n + 3), r.get(n + 4))
                })
                .collect();
            v.sort();
            (Vec::new(), v)
        }
    }
}

/// Brute force over the table, in the same canonical form (aggregates only; for sorts the
/// model is "same multiset, key sequence as the in-memory operator's").
fn model_agg(sc: &Scenario, rows: &[Vec<Value>], gb: &[usize]) -> Vec<String> {
    let mut g: BTreeMap<String, (i64, i64, i64, Option<i64>, Option<i64>)> = BTreeMap::new();
    for r in rows {
        let key = gb.iter().map(|c| format!("{:?}", r[*c])).collect::<Vec<_>>().join("|");
        let e = g.entry(key).or_insert((0, 0, 0, None, None));
        e.0 += 1;
        if let Value::Int64(v) = r[0] {
            e.1 += 1;
            e.2 += v;
            e.3 = Some(e.3.map_or(v, |m: i64| m.min(v)));
            e.4 = Some(e.4.map_or(v, |m: i64| m.max(v)));
        }
    }
    let _ = sc;
    let show = |o: Option<i64>| o.map_or("Some(Null)".to_string(), |v| format!("Some(Int64({v}))"));
    let mut v: Vec<String> = g
        .iter()
        .map(|(k, (cs, c0, sum, mn, mx))| {
            // SUM over no non-null input is NULL (as MIN and MAX are)
            let sum = if *c0 == 0 { "Some(Null)".to_string() } else { sum.to_string() };
            format!("[{k}] count*=Some(Int64({cs})) count0=Some(Int64({c0})) sum={sum} min={} max={}", show(*mn), show(*mx))
        })
        .collect();
    v.sort();
    v
}

pub struct ExecResult {
    pub findings: Vec<(String, String)>,
    pub probes: BTreeMap<&'static str, u64>,
    pub faults: BTreeMap<&'static str, u64>,
    pub file_ops: u64,
    pub digest: u64,
}

pub fn exec(sc: &Scenario, tag: &str) -> ExecResult {
    let mut findings: Vec<(String, String)> = Vec::new();
    let mut probes: BTreeMap<&'static str, u64> = BTreeMap::new();
    let mut faults: BTreeMap<&'static str, u64> = BTreeMap::new();
    let rows = table(sc);
    let input = chunks(&rows, sc.chunk_size);
    let kind = match &sc.kind {
        Kind::Sort(_) => "sort",
        Kind::Agg(_) => "aggregate",
    };

    // the same operator without a spill manager: what the answer is when everything fits
    let reference: Result<Vec<Vec<Value>>, String> = match &sc.kind {
        Kind::Sort(_) => drive(&mut SortPushOperator::new(keys_of(sc)), &input),
        Kind::Agg(gb) => drive(&mut AggregatePushOperator::new(gb.clone(), aggs()), &input),
    };
    let reference = match reference {
        Ok(r) => r,
        Err(e) => {
            findings.push((format!("C17 | spill | {kind} | in-memory-operator-failed"), e));
            return ExecResult { findings, probes, faults, file_ops: 0, digest: 0 };
        }
    };
    let want = canon(sc, &reference);
    if let Kind::Agg(gb) = &sc.kind {
        let m = model_agg(sc, &rows, gb);
        if m != want.1 {
            let d: Vec<String> = want.1.iter().zip(&m).filter(|(a, b)| a != b).take(3).map(|(a, b)| format!("{a} vs {b}")).collect();
            findings.push((format!("C17 | spill | {kind} | in-memory-operator-differs-from-brute-force"), format!("{} vs {} groups; {d:?}", want.1.len(), m.len())));
        }
    }

    // the spilling run, disk under control
    let dir = PathBuf::from(format!("/dev/shm/grafeo-sim/{}/spill-{tag}", std::process::id()));
    let _ = std::fs::remove_dir_all(&dir);
    let counter = Arc::new(std::sync::atomic::AtomicU64::new(0));
    let fired = Arc::new(std::sync::atomic::AtomicU64::new(0));
    let remove_faulted = Arc::new(std::sync::atomic::AtomicU64::new(0));
    {
        let (counter, fired, remove_faulted, plan) = (counter.clone(), fired.clone(), remove_faulted.clone(), sc.fault.clone());
        grafeo_common::verif::install_fs_fault(Some(Box::new(move |op, _path| {
            use std::sync::atomic::Ordering::SeqCst;
            let n = counter.fetch_add(1, SeqCst);
            match &plan {
                Fault::None => None,
                Fault::Hard { at, sticky, storage_full } => {
                    if n == *at || (*sticky && n > *at) {
                        fired.fetch_add(1, SeqCst);
                        if op == "remove" {
                            remove_faulted.fetch_add(1, SeqCst);
                        }
                        Some(std::io::Error::new(if *storage_full { std::io::ErrorKind::StorageFull } else { std::io::ErrorKind::Other }, "injected I/O error"))
                    } else {
                        None
                    }
                }
                Fault::Eintr { at } => {
                    // only reads and writes can be interrupted; anything else: no fault
                    if n == *at && (op == "write" || op == "read") {
                        fired.fetch_add(1, SeqCst);
                        Some(std::io::Error::new(std::io::ErrorKind::Interrupted, "injected EINTR"))
                    } else {
                        None
                    }
                }
            }
        })));
    }
    grafeo_common::verif::set_knob("io.bufwriter.capacity.cap", sc.buf_cap);
    let outcome = guarded(|| -> Result<(Result<Vec<Vec<Value>>, String>, u64, usize, u64, usize), String> {
        let manager = Arc::new(SpillManager::new(&dir).map_err(|e| format!("spill manager: {e}"))?);
        let res = match &sc.kind {
            Kind::Sort(_) => {
                let mut op = SpillableSortPushOperator::with_spilling(keys_of(sc), manager.clone(), sc.threshold.max(1));
                let r = drive(&mut op, &input);
                drop(op);
                r
            }
            Kind::Agg(gb) => {
                let mut op = SpillableAggregatePushOperator::with_spilling(gb.clone(), aggs(), manager.clone(), sc.threshold.max(1));
                let r = drive(&mut op, &input);
                drop(op);
                r
            }
        };
        let peak_files = manager.active_file_count();
        let spilled_before_cleanup = manager.spilled_bytes();
        let _ = manager.cleanup();
        let after = (manager.spilled_bytes(), manager.active_file_count());
        drop(manager);
        Ok((res, spilled_before_cleanup, peak_files, after.0, after.1))
    });
    grafeo_common::verif::install_fs_fault(None);
    grafeo_common::verif::set_knob("io.bufwriter.capacity.cap", None);
    let file_ops = counter.load(std::sync::atomic::Ordering::SeqCst);
    let fired_n = fired.load(std::sync::atomic::Ordering::SeqCst);
    let fault_name: &'static str = match (&sc.fault, fired_n > 0) {
        (Fault::None, _) | (_, false) => "none",
        (Fault::Hard { sticky: true, .. }, true) => "hard-error-from-then-on",
        (Fault::Hard { .. }, true) => "hard-error-once",
        (Fault::Eintr { .. }, true) => "eintr-once",
    };
    if fired_n > 0 {
        *faults.entry(match fault_name {
            "hard-error-from-then-on" => "io_error_sticky",
            "hard-error-once" => "io_error_once",
            _ => "eintr",
        })
        .or_insert(0) += 1;
    }
    if file_ops > 0 {
        *probes.entry("run_touched_spill_files").or_insert(0) += 1;
    }
    let mut digest = fnv(format!("{file_ops}/{fired_n}").as_bytes());
    match outcome {
        Err(p) => findings.push((format!("C17 | spill | {kind} | fault={fault_name} | panic | {}", panic_class(&p)), p)),
        Ok(Err(e)) => findings.push((format!("C17 | spill | {kind} | harness"), e)),
        Ok(Ok((res, _spilled, _files, bytes_after, files_after))) => {
            match res {
                Ok(got_rows) => {
                    let got = canon(sc, &got_rows);
                    digest ^= fnv(got.1.join(";").as_bytes());
                    if got != want {
                        let what = if got.1 != want.1 {
                            if got.1.len() < want.1.len() {
                                "rows-lost"
                            } else if got.1.len() > want.1.len() {
                                "rows-added"
                            } else {
                                "rows-differ"
                            }
                        } else {
                            "order-differs"
                        };
                        let first = got.1.iter().zip(&want.1).find(|(a, b)| a != b).map(|(a, b)| format!("{a} vs {b}")).unwrap_or_else(|| {
                            got.0.iter().zip(&want.0).enumerate().find(|(_, (a, b))| a != b).map(|(i, (a, b))| format!("position {i}: key {a} vs {b}")).unwrap_or_default()
                        });
                        findings.push((
                            format!("C17 | spill | {kind} | {what} | fault={fault_name}"),
                            format!("{} rows vs {} in memory; first difference: {first}", got.1.len(), want.1.len()),
                        ));
                    } else if file_ops > 0 {
                        *probes.entry(if fired_n > 0 { "equal_to_in_memory_result_despite_fault" } else { "spilled_and_equal_to_in_memory_result" }).or_insert(0) += 1;
                    }
                }
                Err(e) => {
                    digest ^= 0x5eed;
                    if fault_name == "none" {
                        findings.push((format!("C17 | spill | {kind} | error-without-fault"), e));
                    } else if fault_name == "eintr-once" {
                        // EINTR is a retry condition, not a failure
                        findings.push((format!("C17 | spill | {kind} | eintr-not-retried"), e));
                    } else {
                        *probes.entry("io_error_reported_as_error").or_insert(0) += 1;
                    }
                }
            }
            // spill files are removed afterwards
            let left: Vec<String> = std::fs::read_dir(&dir).map(|rd| rd.flatten().map(|e| e.file_name().to_string_lossy().to_string()).collect()).unwrap_or_default();
            let remove_was_faulted = remove_faulted.load(std::sync::atomic::Ordering::SeqCst) > 0;
            if !left.is_empty() && !remove_was_faulted {
                findings.push((format!("C17 | spill | {kind} | spill-files-left-behind | fault={fault_name}"), format!("{left:?}")));
            } else if file_ops > 0 {
                *probes.entry("spill_directory_empty_afterwards").or_insert(0) += 1;
            }
            if (bytes_after != 0 || files_after != 0) && !remove_was_faulted {
                findings.push((format!("C17 | spill | {kind} | accounting-not-zero-after-cleanup | fault={fault_name}"), format!("spilled_bytes {bytes_after}, active files {files_after}")));
            }
        }
    }
    let _ = std::fs::remove_dir_all(&dir);
    ExecResult { findings, probes, faults, file_ops, digest }
}

pub fn generate(rng: &mut Prng, thorough: bool) -> Scenario {
    let rows = match rng.below(10) {
        0 => rng.range(0, 3) as usize,
        1..=6 => rng.range(4, 120) as usize,
        _ => rng.range(120, if thorough { 3000 } else { 500 }) as usize,
    };
    let kind = if rng.chance(1, 2) {
        let n = rng.range(1, 2) as usize;
        let mut ks = Vec::new();
        for _ in 0..n {
            ks.push((rng.usize(3), rng.chance(1, 2), rng.chance(1, 2)));
        }
        Kind::Sort(ks)
    } else {
        Kind::Agg(if rng.chance(2, 3) { vec![1] } else { vec![1, 2] })
    };
    // budgets from "one row" to "never spills"
    let threshold = match rng.below(6) {
        0 => 1,
        1 => 2,
        2 | 3 => rng.range(3, 40) as usize,
        4 => rng.range(40, 400) as usize,
        _ => 1_000_000,
    };
    let buf_cap = match rng.below(4) {
        0 => None,
        1 => Some(rng.range(8, 64)),
        2 => Some(rng.range(64, 512)),
        _ => Some(rng.range(64, 4096)),
    };
    let fault = match rng.below(10) {
        0..=4 => Fault::None,
        5 | 6 => Fault::Hard { at: rng.below(60), sticky: rng.chance(1, 2), storage_full: rng.chance(1, 2) },
        7 => Fault::Hard { at: rng.below(2000), sticky: rng.chance(1, 2), storage_full: rng.chance(1, 2) },
        _ => Fault::Eintr { at: rng.below(200) },
    };
    Scenario {
        rows,
        chunk_size: *rng.pick(&[1usize, 3, 7, 64, 200, 2048]),
        kind,
        threshold,
        buf_cap,
        fault,
        dom0: *rng.pick(&[2i64, 10, 1000, 1 << 40]),
        dom1: *rng.pick(&[1i64, 3, 20, 300, 5000]),
        dom2: *rng.pick(&[1u64, 4, 50]),
        null_every: *rng.pick(&[0usize, 0, 2, 7]),
        table_seed: rng.next_u64(),
    }
}

fn run_guarded(sc: &Scenario, tag: &str) -> ExecResult {
    match guarded(|| exec(sc, tag)) {
        Ok(r) => r,
        Err(msg) => {
            grafeo_common::verif::install_fs_fault(None);
            grafeo_common::verif::set_knob("io.bufwriter.capacity.cap", None);
            ExecResult { findings: vec![(format!("C17 | spill | harness-panic | {}", panic_class(&msg)), msg)], probes: BTreeMap::new(), faults: BTreeMap::new(), file_ops: 0, digest: 0 }
        }
    }
}

pub fn replay_doc(sc: &Scenario) -> serde_json::Value {
    json!({"engine": "SPILL", "scenario": sc, "schedule": null, "faults": [sc.fault]})
}

pub fn run_one(seed: u64, idx: u64, thorough: bool) -> RunOut {
    let mut rng = Prng::new(seed);
    let sc = generate(&mut rng, thorough);
    let res = run_guarded(&sc, &format!("{idx}-{seed:x}"));
    let mut out = RunOut::default();
    out.hash = fnv(&serde_json::to_vec(&sc).unwrap());
    out.shape = fnv(format!("{:?}/{}/{:?}/{}", sc.kind, sc.threshold.min(1000), sc.fault, res.file_ops).as_bytes());
    out.nontrivial = res.file_ops > 0;
    out.steps = res.file_ops;
    out.probes = res.probes;
    out.faults = res.faults;
    out.digest = res.digest;
    if sc.rows <= 12 {
        out.sample = Some(json!({"seed": seed, "scenario": sc}));
    }
    for (sig, detail) in res.findings {
        out.findings.push(Finding { property: "C17".into(), signature: sig, detail: format!("{sc:?} :: {detail}"), replay: replay_doc(&sc) });
    }
    out
}

/// Shrinks rows and simplifies the configuration while the same signature persists.
pub fn minimise(f: &Finding) -> Finding {
    let mut best: Scenario = serde_json::from_value(f.replay["scenario"].clone()).unwrap();
    let sig = f.signature.clone();
    let fails = |s: &Scenario| run_guarded(s, "min").findings.iter().any(|(x, _)| *x == sig);
    if !fails(&best) {
        return f.clone();
    }
    let mut progress = true;
    let mut budget = 200;
    while progress && budget > 0 {
        progress = false;
        let mut cands: Vec<Scenario> = Vec::new();
        for r in [best.rows / 2, best.rows.saturating_sub(1)] {
            if r < best.rows {
                let mut c = best.clone();
                c.rows = r;
                cands.push(c);
            }
        }
        if best.null_every != 0 {
            let mut c = best.clone();
            c.null_every = 0;
            cands.push(c);
        }
        if best.buf_cap.is_some() {
            let mut c = best.clone();
            c.buf_cap = None;
            cands.push(c);
        }
        if best.chunk_size != 2048 {
            let mut c = best.clone();
            c.chunk_size = 2048;
            cands.push(c);
        }
        if let Kind::Sort(ks) = &best.kind {
            if ks.len() > 1 {
                let mut c = best.clone();
                c.kind = Kind::Sort(ks[..1].to_vec());
                cands.push(c);
            }
        }
        for c in cands {
            budget -= 1;
            if fails(&c) {
                best = c;
                progress = true;
                break;
            }
        }
    }
    let res = run_guarded(&best, "min");
    let detail = res.findings.iter().find(|(s, _)| *s == sig).map(|(_, d)| format!("{best:?} :: {d}")).unwrap_or_else(|| f.detail.clone());
    Finding { property: f.property.clone(), signature: sig, detail, replay: replay_doc(&best) }
}

pub fn replay(doc: &serde_json::Value) -> Vec<(String, String)> {
    let sc: Scenario = serde_json::from_value(doc["scenario"].clone()).unwrap();
    println!("  scenario: {sc:?}");
    run_guarded(&sc, "replay").findings
}
