//! TXM — history simulator over `TransactionManager` (C03 single-threaded layer, C04).
//!
//! The simulator owns every transaction and decides the total order of
//! begin / read / write / commit / abort / gc. The oracle (`RefTxm`) knows nothing about
//! epochs or about gc: it keeps, per transaction, the sequence number at which it began
//! and (if it committed) the sequence number of its commit, plus its read and write sets.

use std::collections::{BTreeMap, BTreeSet};

use grafeo_common::types::{EdgeId, NodeId, TxId};
use grafeo_common::utils::error::{Error, TransactionError};
use grafeo_engine::transaction::{EntityId, IsolationLevel, TransactionManager};
use serde::{Deserialize, Serialize};
use serde_json::json;

use crate::fw::{Finding, RunOut, guarded, panic_class};
use crate::prng::{Prng, fnv};

#[derive(Clone, Copy, Debug, PartialEq, Eq, Serialize, Deserialize)]
pub enum Lvl {
    Rc,
    Si,
    Ser,
}

impl Lvl {
    fn real(self) -> IsolationLevel {
        match self {
            Lvl::Rc => IsolationLevel::ReadCommitted,
            Lvl::Si => IsolationLevel::SnapshotIsolation,
            Lvl::Ser => IsolationLevel::Serializable,
        }
    }
}

#[derive(Clone, Debug, PartialEq, Eq, Serialize, Deserialize)]
pub enum Op {
    Begin(Lvl),
    /// (transaction slot = index of its Begin among Begins, entity)
    Read(usize, u8),
    Write(usize, u8),
    Commit(usize),
    Abort(usize),
    Gc,
}

#[derive(Clone, Debug, Serialize, Deserialize)]
pub struct Config {
    /// Which property the oracle is judging ("C03" or "C04").
    pub property: String,
    pub entities: u8,
}

#[derive(Clone, Copy, Debug, PartialEq, Eq)]
enum St {
    Active,
    Committed,
    Aborted,
}

struct MTx {
    level: Lvl,
    start_seq: u64,
    end_seq: Option<u64>,
    state: St,
    reads: BTreeSet<u8>,
    writes: BTreeSet<u8>,
}

#[derive(Debug, Clone, Copy, PartialEq, Eq)]
enum Outcome {
    Ok,
    WriteConflict,
    SerFailure,
    InvalidState,
    OtherErr,
}

fn entity(e: u8) -> EntityId {
    // even → node, odd → edge, so both id spaces are exercised
    if e % 2 == 0 {
        EntityId::Node(NodeId::new(u64::from(e / 2)))
    } else {
        EntityId::Edge(EdgeId::new(u64::from(e / 2)))
    }
}

fn classify<T>(r: &Result<T, Error>) -> Outcome {
    match r {
        Ok(_) => Outcome::Ok,
        Err(Error::Transaction(TransactionError::WriteConflict(_))) => Outcome::WriteConflict,
        Err(Error::Transaction(TransactionError::SerializationFailure(_))) => Outcome::SerFailure,
        Err(Error::Transaction(TransactionError::InvalidState(_))) => Outcome::InvalidState,
        Err(_) => Outcome::OtherErr,
    }
}

pub struct ExecResult {
    pub findings: Vec<(String, String)>, // (signature, detail)
    pub probes: BTreeMap<&'static str, u64>,
    pub nontrivial: bool,
    pub log: Vec<String>,
}

/// Executes an explicit operation list against the real manager and the reference model.
pub fn exec(cfg: &Config, ops: &[Op]) -> ExecResult {
    let mgr = TransactionManager::new();
    let mut model: Vec<MTx> = Vec::new();
    let mut real: Vec<TxId> = Vec::new();
    let mut seq: u64 = 0; // spec clock: +1 per successful commit (by the model's verdict)
    let mut findings: Vec<(String, String)> = Vec::new();
    let mut probes: BTreeMap<&'static str, u64> = BTreeMap::new();
    let mut log: Vec<String> = Vec::new();
    let mut last_epoch: Option<u64> = None;
    let mut gc_since_commit = false;
    let mut all_ser = true;
    let mut commit_order: Vec<usize> = Vec::new();
    let mut overlapped_commit = false;
    let prop = cfg.property.as_str();
    let mut p = |k: &'static str| *probes.entry(k).or_insert(0) += 1;

    for (step, op) in ops.iter().enumerate() {
        match op {
            Op::Begin(l) => {
                let id = mgr.begin_with_isolation(l.real());
                real.push(id);
                if *l != Lvl::Ser {
                    all_ser = false;
                }
                model.push(MTx {
                    level: *l,
                    start_seq: seq,
                    end_seq: None,
                    state: St::Active,
                    reads: BTreeSet::new(),
                    writes: BTreeSet::new(),
                });
                log.push(format!("{step}: begin {l:?} -> t{}", model.len() - 1));
            }
            Op::Read(t, e) | Op::Write(t, e) => {
                let is_write = matches!(op, Op::Write(..));
                let Some(m) = model.get_mut(*t) else { continue };
                let r = if is_write {
                    mgr.record_write(real[*t], entity(*e))
                } else {
                    mgr.record_read(real[*t], entity(*e))
                };
                let got = classify(&r);
                let want_ok = m.state == St::Active;
                if want_ok {
                    if is_write {
                        m.writes.insert(*e);
                    } else {
                        m.reads.insert(*e);
                    }
                }
                log.push(format!(
                    "{step}: {} t{t} e{e} -> {got:?}",
                    if is_write { "write" } else { "read" }
                ));
                if want_ok != (got == Outcome::Ok) {
                    findings.push((
                        format!(
                            "{prop} | op={} | tx-state={:?} | got={got:?}",
                            if is_write { "record_write" } else { "record_read" },
                            m.state
                        ),
                        format!("step {step}: expected ok={want_ok}, got {got:?}"),
                    ));
                    break;
                }
            }
            Op::Abort(t) => {
                let Some(m) = model.get_mut(*t) else { continue };
                let got = classify(&mgr.abort(real[*t]));
                let want_ok = m.state == St::Active;
                if want_ok {
                    m.state = St::Aborted;
                }
                log.push(format!("{step}: abort t{t} -> {got:?}"));
                if want_ok != (got == Outcome::Ok) {
                    findings.push((
                        format!("{prop} | op=abort | tx-state={:?} | got={got:?}", m.state),
                        format!("step {step}: expected ok={want_ok}, got {got:?}"),
                    ));
                    break;
                }
            }
            Op::Gc => {
                let pinned = model.iter().any(|m| m.state == St::Active);
                let finished = model.iter().any(|m| m.state != St::Active);
                let n = mgr.gc();
                gc_since_commit = true;
                p("gc");
                if pinned && finished {
                    p("gc_with_pinned_old_reader");
                }
                log.push(format!("{step}: gc -> removed {n}"));
            }
            Op::Commit(t) => {
                if *t >= model.len() {
                    continue;
                }
                let r = mgr.commit(real[*t]);
                let got = classify(&r);
                let me = &model[*t];
                // ---- the specification -------------------------------------------------
                let mut ww = false; // overlapping committed writer of one of my writes
                let mut rw = false; // overlapping committed writer of one of my reads
                let mut stale_writer = false; // non-overlapping committed writer (must NOT matter)
                for (j, o) in model.iter().enumerate() {
                    if j == *t || o.state != St::Committed {
                        continue;
                    }
                    let overlaps = o.end_seq.unwrap() > me.start_seq;
                    let w_hit = o.writes.iter().any(|e| me.writes.contains(e));
                    let r_hit = o.writes.iter().any(|e| me.reads.contains(e));
                    if overlaps && w_hit {
                        ww = true;
                    }
                    if overlaps && r_hit {
                        rw = true;
                    }
                    if !overlaps && (w_hit || r_hit) {
                        stale_writer = true;
                    }
                }
                let read_only = me.writes.is_empty();
                let allowed: Vec<Outcome> = if me.state != St::Active {
                    vec![Outcome::InvalidState]
                } else if ww {
                    if rw && me.level == Lvl::Ser {
                        vec![Outcome::WriteConflict, Outcome::SerFailure]
                    } else {
                        vec![Outcome::WriteConflict]
                    }
                } else if rw && me.level == Lvl::Ser {
                    if read_only || !all_ser {
                        // Ambiguous in the statement (read-only) or outside its premise
                        // (mixed levels): either outcome is accepted.
                        p("c04_ambiguous_case_not_judged");
                        vec![Outcome::Ok, Outcome::SerFailure]
                    } else {
                        vec![Outcome::SerFailure]
                    }
                } else {
                    vec![Outcome::Ok]
                };
                log.push(format!(
                    "{step}: commit t{t} -> {got:?} (ww={ww} rw={rw} stale={stale_writer} allowed={allowed:?})"
                ));
                if me.state == St::Active {
                    if ww {
                        p("conflict_expected");
                        overlapped_commit = true;
                    }
                    if rw && me.level == Lvl::Ser {
                        p("ssi_conflict_expected");
                        overlapped_commit = true;
                    }
                    if stale_writer && !ww && !rw {
                        p("commit_after_nonoverlapping_writer");
                        if gc_since_commit {
                            p("commit_after_nonoverlapping_writer_and_gc");
                        }
                    }
                }
                if !allowed.contains(&got) {
                    let what = match (allowed[0], got) {
                        (Outcome::Ok, Outcome::WriteConflict) => {
                            if stale_writer {
                                "false-refusal(writer-committed-before-begin)"
                            } else {
                                "false-refusal(no-writer)"
                            }
                        }
                        (Outcome::Ok, Outcome::SerFailure) => {
                            if me.level != Lvl::Ser {
                                "ssi-refusal-at-non-serializable-level"
                            } else if stale_writer {
                                "false-ssi-refusal(writer-committed-before-begin)"
                            } else {
                                "false-ssi-refusal(no-writer)"
                            }
                        }
                        (Outcome::WriteConflict, Outcome::Ok) => "lost-update(both-committed)",
                        (Outcome::SerFailure, Outcome::Ok) => "rw-antidependency-committed",
                        (Outcome::InvalidState, Outcome::Ok) => "commit-of-finished-tx-accepted",
                        (Outcome::WriteConflict, Outcome::SerFailure) => "wrong-error-kind",
                        _ => "unexpected-commit-result",
                    };
                    findings.push((
                        format!(
                            "{prop} | op=commit | {what} | level={:?} | gc-before={}",
                            me.level, gc_since_commit
                        ),
                        format!("step {step}: commit t{t}: allowed {allowed:?}, got {got:?}"),
                    ));
                    break;
                }
                if got == Outcome::Ok {
                    let ep = r.as_ref().unwrap().as_u64();
                    if let Some(prev) = last_epoch {
                        if ep <= prev {
                            findings.push((
                                format!("{prop} | op=commit | commit-epoch-not-increasing"),
                                format!("step {step}: epoch {ep} after {prev}"),
                            ));
                            break;
                        }
                    }
                    last_epoch = Some(ep);
                    seq += 1;
                    let m = &mut model[*t];
                    m.state = St::Committed;
                    m.end_seq = Some(seq);
                    commit_order.push(*t);
                    gc_since_commit = false;
                } else if model[*t].state == St::Active {
                    // A refused commit leaves the transaction unfinished in the manager
                    // (Session::commit is what discards it); the model keeps it Active so
                    // that a retry is judged by the same rule.
                    p("commit_refused");
                }
            }
        }
    }

    // ---- C04 history check: dependency graph of committed transactions -------------------
    if findings.is_empty() && prop == "C04" && all_ser && commit_order.len() >= 2 {
        // version order of each entity = commit order
        let n = model.len();
        let mut edges: Vec<(usize, usize, &'static str)> = Vec::new();
        for &a in &commit_order {
            for &b in &commit_order {
                if a == b {
                    continue;
                }
                let (ta, tb) = (&model[a], &model[b]);
                let (ea, eb) = (ta.end_seq.unwrap(), tb.end_seq.unwrap());
                // ww: a installed a version before b
                if ea < eb && ta.writes.iter().any(|e| tb.writes.contains(e)) {
                    edges.push((a, b, "ww"));
                }
                // wr: b's snapshot contains a's write
                if ea <= tb.start_seq && ta.writes.iter().any(|e| tb.reads.contains(e)) {
                    edges.push((a, b, "wr"));
                }
                // rw: a read a version that b overwrote (b not in a's snapshot)
                if eb > ta.start_seq && ta.reads.iter().any(|e| tb.writes.contains(e)) {
                    edges.push((a, b, "rw"));
                }
            }
        }
        // cycle detection (tiny graphs)
        let mut adj = vec![Vec::new(); n];
        for (a, b, _) in &edges {
            adj[*a].push(*b);
        }
        fn dfs(u: usize, adj: &[Vec<usize>], col: &mut [u8]) -> bool {
            col[u] = 1;
            for &v in &adj[u] {
                if col[v] == 1 || (col[v] == 0 && dfs(v, adj, col)) {
                    return true;
                }
            }
            col[u] = 2;
            false
        }
        let mut col = vec![0u8; n];
        let mut cyc = false;
        for &s in &commit_order {
            if col[s] == 0 && dfs(s, &adj, &mut col) {
                cyc = true;
                break;
            }
        }
        if cyc {
            findings.push((
                "C04 | history | dependency-cycle-among-committed-serializable".to_string(),
                format!("edges: {edges:?}"),
            ));
        } else {
            // "equivalent to running them one at a time in commit order": an edge out of a
            // transaction that wrote something must not point backwards in commit order.
            for (a, b, k) in &edges {
                let (ea, eb) = (model[*a].end_seq.unwrap(), model[*b].end_seq.unwrap());
                if ea > eb && !model[*a].writes.is_empty() {
                    findings.push((
                        format!("C04 | history | {k}-edge-against-commit-order"),
                        format!("t{a}(commit#{ea}) -{k}-> t{b}(commit#{eb})"),
                    ));
                    break;
                }
            }
        }
        if !edges.is_empty() {
            p("dsg_checked_with_edges");
        }
    }

    ExecResult {
        findings,
        probes,
        nontrivial: overlapped_commit,
        log,
    }
}

/// Draws one history from the PRNG (swarm-varied mix).
pub fn generate(rng: &mut Prng, property: &str, thorough: bool) -> (Config, Vec<Op>) {
    let entities = rng.range(1, 5) as u8;
    let max_live = rng.range(2, 6) as usize;
    let len = rng.range(4, if thorough { 60 } else { 36 }) as usize;
    // swarm: operation weights (begin, read, write, commit, abort, gc)
    let c04 = property == "C04";
    let w = [
        rng.range(2, 6) as u32,
        if c04 { rng.range(2, 8) as u32 } else { rng.range(0, 2) as u32 },
        rng.range(3, 9) as u32,
        rng.range(2, 6) as u32,
        rng.range(0, 2) as u32,
        if rng.chance(1, 4) { 0 } else { rng.range(1, 4) as u32 },
    ];
    let level_mode = if c04 {
        if rng.chance(3, 4) { 0 } else { 1 } // 0 = all serializable, 1 = mixed
    } else {
        rng.range(1, 3) as u32 // 1 = mixed, 2 = all SI, 3 = all RC
    };
    let mut ops = Vec::with_capacity(len);
    let mut states: Vec<u8> = Vec::new(); // 0 active, 1 finished
    // seeded anomaly shapes get injected up front in some runs
    if c04 && rng.chance(1, 3) && entities >= 2 {
        match rng.below(3) {
            0 => {
                // write skew: T0 r(a) w(b); T1 r(b) w(a)
                ops.extend([
                    Op::Begin(Lvl::Ser),
                    Op::Begin(Lvl::Ser),
                    Op::Read(0, 0),
                    Op::Read(1, 1),
                    Op::Write(0, 1),
                    Op::Write(1, 0),
                ]);
                states.extend([0, 0]);
            }
            1 => {
                // lost update: both read and write a
                ops.extend([
                    Op::Begin(Lvl::Ser),
                    Op::Begin(Lvl::Ser),
                    Op::Read(0, 0),
                    Op::Read(1, 0),
                    Op::Write(0, 0),
                    Op::Write(1, 0),
                ]);
                states.extend([0, 0]);
            }
            _ => {
                // read-only anomaly shape: T0 r(a) r(b) (read-only); T1 r(a) w(a); T2 r(a) r(b) w(b)
                ops.extend([
                    Op::Begin(Lvl::Ser),
                    Op::Begin(Lvl::Ser),
                    Op::Begin(Lvl::Ser),
                    Op::Read(1, 0),
                    Op::Write(1, 0),
                    Op::Read(2, 0),
                    Op::Read(2, 1),
                    Op::Write(2, 1),
                    Op::Read(0, 0),
                    Op::Read(0, 1),
                ]);
                states.extend([0, 0, 0]);
            }
        }
    }
    while ops.len() < len {
        let live: Vec<usize> = states
            .iter()
            .enumerate()
            .filter(|(_, s)| **s == 0)
            .map(|(i, _)| i)
            .collect();
        let k = rng.weighted(&w);
        let pick_tx = |rng: &mut Prng, states: &Vec<u8>| -> Option<usize> {
            if states.is_empty() {
                return None;
            }
            // mostly live transactions, sometimes a finished one (must be rejected)
            if !live.is_empty() && !rng.chance(1, 12) {
                Some(*rng.pick(&live))
            } else {
                Some(rng.usize(states.len()))
            }
        };
        match k {
            0 => {
                if live.len() >= max_live {
                    continue;
                }
                let l = match level_mode {
                    0 => Lvl::Ser,
                    2 => Lvl::Si,
                    3 => Lvl::Rc,
                    _ => *rng.pick(&[Lvl::Rc, Lvl::Si, Lvl::Si, Lvl::Ser]),
                };
                ops.push(Op::Begin(l));
                states.push(0);
            }
            1 => {
                if let Some(t) = pick_tx(rng, &states) {
                    ops.push(Op::Read(t, rng.below(u64::from(entities)) as u8));
                }
            }
            2 => {
                if let Some(t) = pick_tx(rng, &states) {
                    ops.push(Op::Write(t, rng.below(u64::from(entities)) as u8));
                }
            }
            3 => {
                if let Some(t) = pick_tx(rng, &states) {
                    ops.push(Op::Commit(t));
                    // a refused commit leaves it live in the manager; we treat it as still
                    // selectable, but mostly move on
                    if rng.chance(5, 6) {
                        states[t] = 1;
                    }
                }
            }
            4 => {
                if let Some(t) = pick_tx(rng, &states) {
                    ops.push(Op::Abort(t));
                    states[t] = 1;
                }
            }
            _ => ops.push(Op::Gc),
        }
        if states.is_empty() && ops.len() > len {
            break;
        }
    }
    (
        Config {
            property: property.to_string(),
            entities,
        },
        ops,
    )
}

fn shape_hash(ops: &[Op]) -> u64 {
    let s: Vec<u8> = ops
        .iter()
        .flat_map(|o| match o {
            Op::Begin(_) => [0u8, 0],
            Op::Read(t, _) => [1, *t as u8],
            Op::Write(t, _) => [2, *t as u8],
            Op::Commit(t) => [3, *t as u8],
            Op::Abort(t) => [4, *t as u8],
            Op::Gc => [5, 0],
        })
        .collect();
    fnv(&s)
}

pub fn replay_doc(cfg: &Config, ops: &[Op]) -> serde_json::Value {
    json!({"engine": "TXM", "config": cfg, "ops": ops, "schedule": null, "faults": []})
}

fn run_guarded(cfg: &Config, ops: &[Op]) -> ExecResult {
    match guarded(|| exec(cfg, ops)) {
        Ok(r) => r,
        Err(msg) => ExecResult {
            findings: vec![(
                format!("{} | panic | {}", cfg.property, panic_class(&msg)),
                msg,
            )],
            probes: BTreeMap::new(),
            nontrivial: true,
            log: vec![],
        },
    }
}

pub fn run_one(seed: u64, property: &'static str, thorough: bool) -> RunOut {
    let mut rng = Prng::new(seed);
    let (cfg, ops) = generate(&mut rng, property, thorough);
    let res = run_guarded(&cfg, &ops);
    let mut out = RunOut::default();
    let ser = serde_json::to_vec(&ops).unwrap();
    out.hash = fnv(&ser);
    out.shape = shape_hash(&ops);
    out.nontrivial = res.nontrivial;
    out.steps = ops.len() as u64;
    out.probes = res.probes;
    out.digest = fnv(res.log.join("\n").as_bytes()) ^ out.hash;
    out.sample = Some(json!({"seed": seed, "ops": ops, "log": res.log}));
    for (sig, detail) in res.findings {
        out.findings.push(Finding {
            property: property.to_string(),
            signature: sig,
            detail,
            replay: replay_doc(&cfg, &ops),
        });
    }
    out
}

pub fn minimise(f: &Finding) -> Finding {
    let cfg: Config = serde_json::from_value(f.replay["config"].clone()).unwrap();
    let ops: Vec<Op> = serde_json::from_value(f.replay["ops"].clone()).unwrap();
    let sig = f.signature.clone();
    let mut fails = |cand: &[Op]| run_guarded(&cfg, cand).findings.iter().any(|(s, _)| *s == sig);
    let mut small = crate::fw::ddmin(&ops, &mut fails, 400);
    // second pass: drop whole transactions (renumbering the slots behind them)
    let mut slot = 0usize;
    loop {
        let n_tx = small.iter().filter(|o| matches!(o, Op::Begin(_))).count();
        if slot >= n_tx {
            break;
        }
        let mut seen = 0usize;
        let mut cand: Vec<Op> = Vec::new();
        for o in &small {
            let fix = |t: usize| if t > slot { t - 1 } else { t };
            match o {
                Op::Begin(l) => {
                    if seen != slot {
                        cand.push(Op::Begin(*l));
                    }
                    seen += 1;
                }
                Op::Read(t, e) if *t != slot => cand.push(Op::Read(fix(*t), *e)),
                Op::Write(t, e) if *t != slot => cand.push(Op::Write(fix(*t), *e)),
                Op::Commit(t) if *t != slot => cand.push(Op::Commit(fix(*t))),
                Op::Abort(t) if *t != slot => cand.push(Op::Abort(fix(*t))),
                Op::Gc => cand.push(Op::Gc),
                _ => {}
            }
        }
        if !cand.is_empty() && fails(&cand) {
            small = cand;
        } else {
            slot += 1;
        }
    }
    let res = run_guarded(&cfg, &small);
    let detail = res
        .findings
        .iter()
        .find(|(s, _)| *s == sig)
        .map(|(_, d)| d.clone())
        .unwrap_or_else(|| f.detail.clone());
    let mut doc = replay_doc(&cfg, &small);
    doc["log"] = json!(res.log);
    doc["original_len"] = json!(ops.len());
    Finding {
        property: f.property.clone(),
        signature: sig,
        detail,
        replay: doc,
    }
}

/// Replays a document produced by this engine; returns the findings it reproduces.
pub fn replay(doc: &serde_json::Value) -> Vec<(String, String)> {
    let cfg: Config = serde_json::from_value(doc["config"].clone()).unwrap();
    let ops: Vec<Op> = serde_json::from_value(doc["ops"].clone()).unwrap();
    let res = run_guarded(&cfg, &ops);
    for l in &res.log {
        println!("  {l}");
    }
    res.findings
}
