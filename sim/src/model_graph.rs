//! Reference graph model: trivial inside (ordered maps), answers by brute force.

use std::collections::{BTreeMap, BTreeSet};
use std::sync::Arc;

use grafeo_common::types::{PropertyKey, Value};
use serde::{Deserialize, Serialize};

use crate::prng::Prng;

/// Serializable mirror of `grafeo_common::types::Value` (floats kept as bits so replay
/// files round-trip NaN payloads and signed zeros).
#[derive(Clone, Debug, PartialEq, Eq, PartialOrd, Ord, Serialize, Deserialize)]
pub enum SV {
    Null,
    Bool(bool),
    Int(i64),
    F(u64),
    Str(String),
    Bytes(Vec<u8>),
    List(Vec<SV>),
    Map(Vec<(String, SV)>),
    Vector(Vec<u32>),
    /// a long string of one repeated ASCII character (length, character), kept compact in
    /// operation lists and replay files
    BigStr(u32, u8),
}

impl SV {
    pub fn f(x: f64) -> SV {
        SV::F(x.to_bits())
    }

    pub fn to_value(&self) -> Value {
        match self {
            SV::Null => Value::Null,
            SV::Bool(b) => Value::Bool(*b),
            SV::Int(i) => Value::Int64(*i),
            SV::F(b) => Value::Float64(f64::from_bits(*b)),
            SV::Str(s) => Value::String(s.as_str().into()),
            SV::BigStr(n, c) => Value::String(String::from_utf8(vec![*c; *n as usize]).unwrap_or_default().as_str().into()),
            SV::Bytes(b) => Value::Bytes(Arc::from(b.as_slice())),
            SV::List(xs) => Value::List(xs.iter().map(SV::to_value).collect::<Vec<_>>().into()),
            SV::Map(kv) => Value::Map(Arc::new(
                kv.iter()
                    .map(|(k, v)| (PropertyKey::new(k.as_str()), v.to_value()))
                    .collect::<BTreeMap<_, _>>(),
            )),
            SV::Vector(v) => Value::Vector(
                v.iter()
                    .map(|b| f32::from_bits(*b))
                    .collect::<Vec<_>>()
                    .into(),
            ),
        }
    }

    pub fn from_value(v: &Value) -> SV {
        match v {
            Value::Null => SV::Null,
            Value::Bool(b) => SV::Bool(*b),
            Value::Int64(i) => SV::Int(*i),
            Value::Float64(f) => SV::F(f.to_bits()),
            Value::String(s) if s.len() > 4096 && s.as_bytes().iter().all(|b| *b == s.as_bytes()[0] && b.is_ascii()) => SV::BigStr(s.len() as u32, s.as_bytes()[0]),
            Value::String(s) => SV::Str(s.to_string()),
            Value::Bytes(b) => SV::Bytes(b.to_vec()),
            Value::Timestamp(t) => SV::Str(format!("<timestamp {t:?}>")),
            Value::List(xs) => SV::List(xs.iter().map(SV::from_value).collect()),
            Value::Map(m) => SV::Map(
                m.iter()
                    .map(|(k, v)| (k.as_str().to_string(), SV::from_value(v)))
                    .collect(),
            ),
            Value::Vector(v) => SV::Vector(v.iter().map(|f| f.to_bits()).collect()),
        }
    }

    /// Equality as a plain scan defines it (`Value == Value`): IEEE for floats.
    pub fn scan_eq(&self, other: &SV) -> bool {
        match (self, other) {
            (SV::F(a), SV::F(b)) => f64::from_bits(*a) == f64::from_bits(*b),
            (SV::List(a), SV::List(b)) => {
                a.len() == b.len() && a.iter().zip(b).all(|(x, y)| x.scan_eq(y))
            }
            (SV::Map(a), SV::Map(b)) => {
                a.len() == b.len()
                    && a.iter()
                        .zip(b)
                        .all(|((k1, v1), (k2, v2))| k1 == k2 && v1.scan_eq(v2))
            }
            (SV::Vector(a), SV::Vector(b)) => {
                a.len() == b.len()
                    && a.iter()
                        .zip(b)
                        .all(|(x, y)| f32::from_bits(*x) == f32::from_bits(*y))
            }
            _ => self == other,
        }
    }

    /// True for float values on which bitwise and IEEE equality disagree.
    pub fn is_odd_float(&self) -> bool {
        match self {
            SV::F(b) => {
                let f = f64::from_bits(*b);
                f.is_nan() || f == 0.0
            }
            SV::List(xs) => xs.iter().any(SV::is_odd_float),
            SV::Map(kv) => kv.iter().any(|(_, v)| v.is_odd_float()),
            SV::Vector(v) => v.iter().any(|b| {
                let f = f32::from_bits(*b);
                f.is_nan() || f == 0.0
            }),
            _ => false,
        }
    }

    pub fn class(&self) -> &'static str {
        match self {
            SV::Null => "null",
            SV::Bool(_) => "bool",
            SV::Int(_) => "int",
            SV::F(b) => {
                let f = f64::from_bits(*b);
                if f.is_nan() {
                    "nan"
                } else if f == 0.0 {
                    "zero"
                } else {
                    "float"
                }
            }
            SV::Str(_) => "str",
            SV::BigStr(..) => "big-str",
            SV::Bytes(_) => "bytes",
            SV::List(_) => "list",
            SV::Map(_) => "map",
            SV::Vector(_) => "vector",
        }
    }

    /// Numeric / string ordering used by range predicates; None when incomparable.
    pub fn cmp_range(&self, other: &SV) -> Option<std::cmp::Ordering> {
        match (self, other) {
            (SV::Int(a), SV::Int(b)) => Some(a.cmp(b)),
            (SV::F(a), SV::F(b)) => f64::from_bits(*a).partial_cmp(&f64::from_bits(*b)),
            (SV::Int(a), SV::F(b)) => (*a as f64).partial_cmp(&f64::from_bits(*b)),
            (SV::F(a), SV::Int(b)) => f64::from_bits(*a).partial_cmp(&(*b as f64)),
            (SV::Str(a), SV::Str(b)) => Some(a.cmp(b)),
            (SV::Bool(a), SV::Bool(b)) => Some(a.cmp(b)),
            _ => None,
        }
    }
}

/// Draws a value. `unique` makes plain ints/strings attributable to one write.
pub fn gen_value(rng: &mut Prng, unique: u64, exotic: bool) -> SV {
    let k = rng.below(if exotic { 16 } else { 8 });
    match k {
        0 | 1 | 2 => SV::Int(unique as i64),
        3 => SV::Str(format!("s{unique}")),
        4 => SV::Int(rng.below(4) as i64), // colliding small ints: shared index buckets
        5 => SV::Str(format!("v{}", rng.below(3))),
        6 => SV::Bool(rng.chance(1, 2)),
        7 => SV::f(unique as f64 + 0.5),
        8 => SV::Null,
        9 => SV::f(*rng.pick(&[0.0, -0.0, f64::NAN, f64::INFINITY, f64::NEG_INFINITY, 1e300])),
        10 => SV::Int(*rng.pick(&[i64::MIN, i64::MAX, -1, 0])),
        11 => SV::Str(rng.pick(&["", "é✓", "a b", "'q'"]).to_string()),
        12 => SV::List(vec![SV::Int(unique as i64), SV::Str("x".into()), SV::Null]),
        13 => SV::Map(vec![
            ("a".into(), SV::Int(unique as i64)),
            ("b".into(), SV::List(vec![SV::f(1.5)])),
        ]),
        14 => SV::Bytes(vec![0, 255, (unique & 0xff) as u8]),
        _ => SV::Vector(
            (0..rng.below(4))
                .map(|i| ((unique + i) as f32).to_bits())
                .collect(),
        ),
    }
}

#[derive(Clone, Debug, Default, PartialEq, Eq, Serialize, Deserialize)]
pub struct MNode {
    pub labels: BTreeSet<String>,
    pub props: BTreeMap<String, SV>,
}

#[derive(Clone, Debug, PartialEq, Eq, Serialize, Deserialize)]
pub struct MEdge {
    pub src: u64,
    pub dst: u64,
    pub ty: String,
    pub props: BTreeMap<String, SV>,
}

#[derive(Clone, Debug, Default, PartialEq, Eq, Serialize, Deserialize)]
pub struct RefGraph {
    pub nodes: BTreeMap<u64, MNode>,
    pub edges: BTreeMap<u64, MEdge>,
    /// Only used by bug-compatible ("as-is") variants of a model: property values written
    /// to a node id that does not exist; they surface if the id is handed out again.
    #[serde(default)]
    pub orphans: BTreeMap<u64, BTreeMap<String, SV>>,
}

impl RefGraph {
    /// Equality of the observable graph (orphans are not observable by themselves).
    pub fn same_graph(&self, other: &RefGraph) -> bool {
        self.nodes == other.nodes && self.edges == other.edges
    }

    pub fn label_members(&self, l: &str) -> Vec<u64> {
        self.nodes
            .iter()
            .filter(|(_, n)| n.labels.contains(l))
            .map(|(i, _)| *i)
            .collect()
    }

    pub fn out_edges(&self, n: u64) -> Vec<(u64, u64)> {
        let mut v: Vec<(u64, u64)> = self
            .edges
            .iter()
            .filter(|(_, e)| e.src == n)
            .map(|(id, e)| (e.dst, *id))
            .collect();
        v.sort_unstable();
        v
    }

    pub fn in_edges(&self, n: u64) -> Vec<(u64, u64)> {
        let mut v: Vec<(u64, u64)> = self
            .edges
            .iter()
            .filter(|(_, e)| e.dst == n)
            .map(|(id, e)| (e.src, *id))
            .collect();
        v.sort_unstable();
        v
    }

    pub fn nodes_with_prop_eq(&self, key: &str, v: &SV) -> Vec<u64> {
        self.nodes
            .iter()
            .filter(|(_, n)| n.props.get(key).is_some_and(|x| x.scan_eq(v)))
            .map(|(i, _)| *i)
            .collect()
    }

    pub fn incident_edges(&self, n: u64) -> Vec<u64> {
        self.edges
            .iter()
            .filter(|(_, e)| e.src == n || e.dst == n)
            .map(|(i, _)| *i)
            .collect()
    }
}
