//! Lock seam: routes every blocking `parking_lot` acquire/release of the code under test
//! through the controlled scheduler (shuttle), and provides the recording scheduler.

use std::cell::RefCell;
use std::collections::BTreeMap;
use std::sync::Arc;

use parking_lot::sim::{Hooks, Kind};
use shuttle::scheduler::{Schedule, Scheduler, Task, TaskId};

struct Waiters {
    /// lock address → number of simulated threads blocked in an exclusive acquire
    writers: BTreeMap<usize, u32>,
    acquires: u64,
    contended: u64,
}

pub struct SimSync {
    m: shuttle::sync::Mutex<Waiters>,
    cv: shuttle::sync::Condvar,
}

thread_local! {
    static SIM: RefCell<Option<Arc<SimSync>>> = const { RefCell::new(None) };
}

fn sim() -> Option<Arc<SimSync>> {
    SIM.with(|s| s.borrow().clone())
}

fn acquire(addr: usize, kind: Kind, try_fn: &mut dyn FnMut() -> bool) {
    let Some(s) = sim() else {
        // hooks installed but no execution context: behave like a spin lock
        while !try_fn() {
            std::thread::yield_now();
        }
        return;
    };
    if std::thread::panicking() {
        // unwinding a failed execution: never block, never schedule
        let _ = try_fn();
        return;
    }
    let mut g = s.m.lock().unwrap(); // scheduling point before every acquire
    g.acquires += 1;
    let mut registered = false;
    let mut first = true;
    loop {
        // parking_lot prefers writers: a plain read() queues behind a waiting writer
        let writer_waiting = g.writers.get(&addr).copied().unwrap_or(0) > 0;
        let may_try = !(kind == Kind::Shared && writer_waiting);
        if may_try && try_fn() {
            if registered {
                if let Some(w) = g.writers.get_mut(&addr) {
                    *w -= 1;
                    if *w == 0 {
                        g.writers.remove(&addr);
                    }
                }
            }
            return;
        }
        if first {
            g.contended += 1;
            first = false;
        }
        if kind == Kind::Exclusive && !registered {
            *g.writers.entry(addr).or_insert(0) += 1;
            registered = true;
        }
        g = s.cv.wait(g).unwrap(); // real blocking, visible to the deadlock detector
    }
}

fn released(_addr: usize, _kind: Kind) {
    let Some(s) = sim() else { return };
    if std::thread::panicking() {
        return;
    }
    let _g = s.m.lock().unwrap(); // scheduling point after every release
    s.cv.notify_all();
}

static HOOKS: Hooks = Hooks { acquire, released };

/// Must be called from inside a shuttle execution (root task), before the code under
/// test takes its first lock concurrently. Returns a guard that removes the hooks.
pub fn enter() -> SimGuard {
    let s = Arc::new(SimSync {
        m: shuttle::sync::Mutex::new(Waiters { writers: BTreeMap::new(), acquires: 0, contended: 0 }),
        cv: shuttle::sync::Condvar::new(),
    });
    SIM.with(|c| *c.borrow_mut() = Some(s));
    parking_lot::sim::install(Some(&HOOKS));
    SimGuard
}

pub struct SimGuard;

impl SimGuard {
    /// (lock acquisitions that were scheduling points, of which found the lock taken)
    pub fn stats(&self) -> (u64, u64) {
        match sim() {
            Some(s) => {
                let g = s.m.lock().unwrap();
                (g.acquires, g.contended)
            }
            None => (0, 0),
        }
    }
}

impl Drop for SimGuard {
    fn drop(&mut self) {
        parking_lot::sim::install(None);
        SIM.with(|c| *c.borrow_mut() = None);
    }
}

/// Clears any leftover hook state on this OS thread (after a failed execution unwound).
pub fn force_leave() {
    parking_lot::sim::install(None);
    SIM.with(|c| *c.borrow_mut() = None);
}

/// Wraps a scheduler and records every decision, so that the exact schedule can be stored
/// in a replay file and re-run with `ReplayScheduler`.
pub struct Recording<S: Scheduler> {
    inner: S,
    pub steps: Arc<std::sync::Mutex<Vec<usize>>>,
}

impl<S: Scheduler> Recording<S> {
    pub fn new(inner: S) -> (Self, Arc<std::sync::Mutex<Vec<usize>>>) {
        let steps = Arc::new(std::sync::Mutex::new(Vec::new()));
        (Self { inner, steps: steps.clone() }, steps)
    }
}

impl<S: Scheduler> Scheduler for Recording<S> {
    fn new_execution(&mut self) -> Option<Schedule> {
        // The runner asks once more after the last execution (and gets None): the recorded
        // steps of that last execution must survive the question.
        let next = self.inner.new_execution();
        if next.is_some() {
            self.steps.lock().unwrap().clear();
        }
        next
    }

    fn next_task(&mut self, runnable: &[&Task], current: Option<TaskId>, is_yielding: bool) -> Option<TaskId> {
        let t = self.inner.next_task(runnable, current, is_yielding);
        if let Some(t) = t {
            self.steps.lock().unwrap().push(usize::from(t));
        }
        t
    }

    fn next_u64(&mut self) -> u64 {
        self.inner.next_u64()
    }
}

pub fn schedule_from_steps(steps: &[usize]) -> Schedule {
    Schedule::new_from_task_ids(0, steps.iter().copied())
}
