//! dev aid: every single-bit flip and truncation of a small snapshot through import_snapshot
use grafeo_common::types::Value;
use grafeo_engine::GrafeoDB;
pub fn run() -> i32 {
    let db = GrafeoDB::new_in_memory();
    let a = db.create_node_with_props(&["A", "B"], [("k", Value::Int64(5)), ("s", Value::String("hello".into()))]);
    let b = db.create_node(&["C"]);
    db.create_edge_with_props(a, b, "R", [("w", Value::Float64(1.5)), ("l", Value::List(vec![Value::Int64(1), Value::Null].into()))]);
    let blob = db.export_snapshot().unwrap();
    println!("blob {} bytes", blob.len());
    let (mut ok, mut err, mut pan) = (0, 0, 0);
    for bit in 0..blob.len() * 8 {
        let mut x = blob.clone();
        x[bit / 8] ^= 1 << (bit % 8);
        match crate::fw::guarded(|| GrafeoDB::import_snapshot(&x).map(|d| d.node_count())) {
            Ok(Ok(_)) => ok += 1,
            Ok(Err(_)) => err += 1,
            Err(p) => {
                pan += 1;
                println!("PANIC bit {bit}: {p}");
            }
        }
    }
    println!("flips: ok={ok} err={err} panic={pan}");
    for len in 0..blob.len() {
        match crate::fw::guarded(|| GrafeoDB::import_snapshot(&blob[..len]).map(|d| d.node_count())) {
            Ok(Ok(n)) => println!("truncation to {len} accepted with {n} nodes"),
            Ok(Err(_)) => {}
            Err(p) => println!("PANIC trunc {len}: {p}"),
        }
    }
    0
}
