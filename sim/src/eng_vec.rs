//! VEC — history simulator over `HnswIndex::with_seed` (C18, partial claim): every search
//! result is checked against an id→vector model and the scalar distance definitions.

use std::collections::{BTreeMap, BTreeSet};

use grafeo_common::types::NodeId;
use grafeo_core::index::vector::{DistanceMetric, HnswConfig, HnswIndex};
use serde::{Deserialize, Serialize};
use serde_json::json;

use crate::fw::{Finding, RunOut, guarded, panic_class};
use crate::prng::{Prng, fnv};

#[derive(Clone, Debug, PartialEq, Serialize, Deserialize)]
pub enum VOp {
    Insert(u64, Vec<i32>),
    Remove(u64),
    Search(Vec<i32>, usize),
    SearchEf(Vec<i32>, usize, usize),
    Batch(Vec<Vec<i32>>, usize),
}

impl VOp {
    fn kind(&self) -> &'static str {
        match self {
            VOp::Insert(..) => "insert",
            VOp::Remove(_) => "remove",
            VOp::Search(..) => "search",
            VOp::SearchEf(..) => "search_with_ef",
            VOp::Batch(..) => "batch_search",
        }
    }
}

#[derive(Clone, Debug, Serialize, Deserialize)]
pub struct Config {
    pub dims: usize,
    /// 0 cosine, 1 euclidean, 2 dot, 3 manhattan
    pub metric: u8,
    pub m: usize,
    pub ef_construction: usize,
    pub ef: usize,
    pub index_seed: u64,
    /// coordinates are multiplied by this (magnitude stress)
    pub scale: f32,
}

fn metric_of(m: u8) -> DistanceMetric {
    match m % 4 {
        0 => DistanceMetric::Cosine,
        1 => DistanceMetric::Euclidean,
        2 => DistanceMetric::DotProduct,
        _ => DistanceMetric::Manhattan,
    }
}

fn to_f32(v: &[i32], scale: f32) -> Vec<f32> {
    v.iter().map(|x| *x as f32 * scale).collect()
}

/// The mathematical definition in f64 (None where it is undefined: cosine with a zero vector).
fn true_distance(a: &[f32], b: &[f32], metric: u8) -> Option<f64> {
    let (a, b): (Vec<f64>, Vec<f64>) = (a.iter().map(|x| f64::from(*x)).collect(), b.iter().map(|x| f64::from(*x)).collect());
    match metric % 4 {
        0 => {
            let na: f64 = a.iter().map(|x| x * x).sum::<f64>().sqrt();
            let nb: f64 = b.iter().map(|x| x * x).sum::<f64>().sqrt();
            if na == 0.0 || nb == 0.0 {
                return None;
            }
            let dot: f64 = a.iter().zip(&b).map(|(x, y)| x * y).sum();
            Some(1.0 - dot / (na * nb))
        }
        1 => Some(a.iter().zip(&b).map(|(x, y)| (x - y) * (x - y)).sum::<f64>().sqrt()),
        2 => Some(-a.iter().zip(&b).map(|(x, y)| x * y).sum::<f64>()),
        _ => Some(a.iter().zip(&b).map(|(x, y)| (x - y).abs()).sum::<f64>()),
    }
}

pub struct ExecResult {
    pub findings: Vec<(String, String)>,
    pub probes: BTreeMap<&'static str, u64>,
    pub steps_done: usize,
    pub nontrivial: bool,
    pub digest: u64,
}

fn judge(cfg: &Config, model: &BTreeMap<u64, Vec<f32>>, q: &[f32], k: usize, res: &[(NodeId, f32)], what: &str, removed_any: bool) -> Option<(String, String)> {
    let m = metric_of(cfg.metric).name();
    let ctx = if removed_any { "after-removals" } else { "inserts-only" };
    if res.len() > k {
        return Some((format!("C18 | {what} | more-than-k-results | metric={m}"), format!("{} results for k={k}", res.len())));
    }
    let mut seen = BTreeSet::new();
    for (id, _) in res {
        if !seen.insert(id.as_u64()) {
            return Some((format!("C18 | {what} | duplicate-id | metric={m} | {ctx}"), format!("id {} twice in {:?}", id.as_u64(), res)));
        }
        if !model.contains_key(&id.as_u64()) {
            return Some((format!("C18 | {what} | id-not-in-index | metric={m} | {ctx}"), format!("id {} returned but not present (removed or never inserted)", id.as_u64())));
        }
    }
    for w in res.windows(2) {
        if w[1].1 < w[0].1 {
            return Some((format!("C18 | {what} | not-sorted-by-distance | metric={m}"), format!("{:?}", res)));
        }
    }
    for (id, d) in res {
        if let Some(t) = true_distance(&model[&id.as_u64()], q, cfg.metric) {
            let d64 = f64::from(*d);
            // tolerance relative to the magnitude of the accumulated terms (a dot product of
            // large vectors may cancel to 0 while every f32 term carries rounding error)
            let mag: f64 = match cfg.metric % 4 {
                2 => model[&id.as_u64()].iter().zip(q).map(|(x, y)| (f64::from(*x) * f64::from(*y)).abs()).sum(),
                0 => 2.0,
                _ => t.abs(),
            };
            let tol = 1e-3 * mag.max(1.0) + 1e-4;
            if !d.is_finite() && t.is_finite() && t.abs() < 1e30 {
                return Some((format!("C18 | {what} | non-finite-distance | metric={m}"), format!("id {} distance {d} true {t}", id.as_u64())));
            }
            if d.is_finite() && (d64 - t).abs() > tol {
                return Some((format!("C18 | {what} | wrong-distance | metric={m} | {ctx}"), format!("id {} reported {d} true {t} (query {q:?}, vector {:?})", id.as_u64(), model[&id.as_u64()])));
            }
        }
    }
    if k >= 1 && !model.is_empty() && res.is_empty() {
        return Some((format!("C18 | {what} | empty-result-on-non-empty-index | metric={m} | {ctx}"), format!("index holds {} vectors, k={k}", model.len())));
    }
    None
}

pub fn exec(cfg: &Config, ops: &[VOp]) -> ExecResult {
    let mut hc = HnswConfig::new(cfg.dims, metric_of(cfg.metric));
    hc.m = cfg.m;
    hc.m_max = cfg.m * 2;
    hc.ef_construction = cfg.ef_construction;
    hc.ef = cfg.ef;
    hc.ml = 1.0 / (cfg.m.max(2) as f64).ln();
    let idx = HnswIndex::with_seed(hc, cfg.index_seed);
    let mut model: BTreeMap<u64, Vec<f32>> = BTreeMap::new();
    let mut findings = Vec::new();
    let mut probes: BTreeMap<&'static str, u64> = BTreeMap::new();
    let mut removed_any = false;
    let mut digest = 0u64;
    let mut steps_done = 0;
    let mut searches = 0u64;
    for (i, op) in ops.iter().enumerate() {
        let mut bad: Option<(String, String)> = None;
        match op {
            VOp::Insert(id, v) => {
                let v = to_f32(v, cfg.scale);
                if v.len() != cfg.dims {
                    continue;
                }
                if model.contains_key(id) {
                    *probes.entry("reinsert_same_id").or_insert(0) += 1;
                }
                idx.insert(NodeId::new(*id), &v);
                model.insert(*id, v);
            }
            VOp::Remove(id) => {
                let r = idx.remove(NodeId::new(*id));
                let want = model.remove(id).is_some();
                if r != want {
                    bad = Some((format!("C18 | remove | return-value | metric={}", metric_of(cfg.metric).name()), format!("returned {r}, expected {want}")));
                }
                if want {
                    removed_any = true;
                }
            }
            VOp::Search(q, k) | VOp::SearchEf(q, k, _) => {
                let qf = to_f32(q, cfg.scale);
                if qf.len() != cfg.dims {
                    continue;
                }
                let (res, what) = match op {
                    VOp::SearchEf(_, _, ef) => (idx.search_with_ef(&qf, *k, *ef), "search_with_ef"),
                    _ => (idx.search(&qf, *k), "search"),
                };
                searches += 1;
                if res.len() == (*k).min(model.len()) {
                    *probes.entry("search_returned_min_k_len").or_insert(0) += 1;
                } else {
                    *probes.entry("search_returned_fewer_than_min_k_len").or_insert(0) += 1;
                }
                bad = judge(cfg, &model, &qf, *k, &res, what, removed_any);
                if bad.is_none() {
                    // exact search over the index's current contents (what `iter` hands out after
                    // this history): same per-result rules, and the i-th reported distance must be
                    // the i-th smallest true distance
                    let items: Vec<(NodeId, std::sync::Arc<[f32]>)> = idx.iter().collect();
                    let exact = grafeo_core::index::vector::brute_force_knn(items.iter().map(|(id, v)| (*id, &**v)), &qf, *k, metric_of(cfg.metric));
                    bad = judge(cfg, &model, &qf, *k, &exact, "brute_force_knn", removed_any);
                    let mut truth: Vec<Option<f64>> = model.values().map(|v| true_distance(v, &qf, cfg.metric)).collect();
                    if bad.is_none() && truth.iter().all(|t| t.is_some_and(f64::is_finite)) {
                        let mut t: Vec<f64> = truth.drain(..).flatten().collect();
                        t.sort_by(|a, b| a.partial_cmp(b).unwrap());
                        if exact.len() != (*k).min(t.len()) {
                            bad = Some((format!("C18 | brute_force_knn | wrong-result-count | metric={}", metric_of(cfg.metric).name()), format!("{} results for k={k} over {} vectors", exact.len(), t.len())));
                        } else {
                            let mag: f64 = match cfg.metric % 4 {
                                2 => model.values().map(|v| v.iter().zip(&qf).map(|(x, y)| (f64::from(*x) * f64::from(*y)).abs()).sum::<f64>()).fold(0.0, f64::max),
                                0 => 2.0,
                                _ => t.last().copied().unwrap_or(0.0).abs(),
                            };
                            let tol = 1e-3 * mag.max(1.0) + 1e-4;
                            for (i, (id, d)) in exact.iter().enumerate() {
                                if d.is_finite() && (f64::from(*d) - t[i]).abs() > tol {
                                    bad = Some((format!("C18 | brute_force_knn | not-the-nearest | metric={}", metric_of(cfg.metric).name()), format!("rank {i}: id {} at {d}, but the {i}-th smallest true distance is {}", id.as_u64(), t[i])));
                                    break;
                                }
                            }
                        }
                        *probes.entry("exact_search_checked").or_insert(0) += 1;
                    }
                }
                digest = digest.rotate_left(7) ^ fnv(format!("{:?}", res.iter().map(|(i, _)| i.as_u64()).collect::<Vec<_>>()).as_bytes());
            }
            VOp::Batch(qs, k) => {
                let qfs: Vec<Vec<f32>> = qs.iter().map(|q| to_f32(q, cfg.scale)).filter(|q| q.len() == cfg.dims).collect();
                if qfs.is_empty() {
                    continue;
                }
                let batch = idx.batch_search(&qfs, *k);
                searches += 1;
                for (q, r) in qfs.iter().zip(&batch) {
                    let single = idx.search(q, *k);
                    let same = r.len() == single.len() && r.iter().zip(&single).all(|(a, b)| a.0 == b.0 && (a.1 == b.1 || (a.1.is_nan() && b.1.is_nan())));
                    if !same {
                        bad = Some((format!("C18 | batch_search | differs-from-one-by-one | metric={}", metric_of(cfg.metric).name()), format!("{r:?} vs {single:?}")));
                        break;
                    }
                    if let Some(b) = judge(cfg, &model, q, *k, r, "batch_search", removed_any) {
                        bad = Some(b);
                        break;
                    }
                }
                if batch.len() != qfs.len() {
                    bad = Some(("C18 | batch_search | wrong-number-of-result-lists".to_string(), format!("{} vs {}", batch.len(), qfs.len())));
                }
            }
        }
        steps_done = i + 1;
        digest = digest.rotate_left(3) ^ fnv(op.kind().as_bytes()) ^ model.len() as u64;
        if bad.is_none() && idx.len() != model.len() {
            bad = Some((format!("C18 | len | count-mismatch | metric={}", metric_of(cfg.metric).name()), format!("{} vs {}", idx.len(), model.len())));
        }
        if let Some((s, d)) = bad {
            findings.push((s, format!("step {i} ({}): {d}", op.kind())));
            break;
        }
    }
    ExecResult { findings, probes, steps_done, nontrivial: searches > 0 && steps_done >= 3, digest }
}

pub fn generate(rng: &mut Prng, thorough: bool) -> (Config, Vec<VOp>) {
    let dims = *rng.pick(&[1usize, 2, 3, 7, 8, 9, 33]);
    let cfg = Config {
        dims,
        metric: rng.below(4) as u8,
        m: *rng.pick(&[2usize, 3, 4, 16]),
        ef_construction: *rng.pick(&[1usize, 4, 16, 128]),
        ef: *rng.pick(&[1usize, 2, 10, 50]),
        index_seed: rng.next_u64(),
        scale: *rng.pick(&[1.0f32, 1.0, 1.0, 0.001, 1000.0, 1.0e6]),
    };
    let len = rng.range(3, if thorough { 120 } else { 50 }) as usize;
    let n_ids = rng.range(2, 30);
    let vecgen = |rng: &mut Prng| -> Vec<i32> {
        match rng.below(10) {
            0 => vec![0; dims],                                           // zero vector
            1 => (0..dims).map(|_| 1).collect(),                          // duplicates likely
            _ => (0..dims).map(|_| rng.below(7) as i32 - 3).collect(),
        }
    };
    let mut ops = Vec::new();
    while ops.len() < len {
        let op = match rng.below(14) {
            0..=6 => VOp::Insert(rng.below(n_ids), vecgen(rng)),
            7 | 8 => VOp::Remove(rng.below(n_ids)),
            9 | 10 => VOp::Search(vecgen(rng), *rng.pick(&[0usize, 1, 2, 5, 40])),
            11 | 12 => VOp::SearchEf(vecgen(rng), *rng.pick(&[1usize, 3, 10]), *rng.pick(&[0usize, 1, 5, 100])),
            _ => VOp::Batch((0..rng.range(1, 4)).map(|_| vecgen(rng)).collect(), *rng.pick(&[1usize, 3, 10])),
        };
        ops.push(op);
    }
    (cfg, ops)
}

fn run_guarded(cfg: &Config, ops: &[VOp]) -> ExecResult {
    match guarded(|| exec(cfg, ops)) {
        Ok(r) => r,
        Err(msg) => ExecResult { findings: vec![(format!("C18 | panic | {}", panic_class(&msg)), msg)], probes: BTreeMap::new(), steps_done: 0, nontrivial: true, digest: 0 },
    }
}

pub fn replay_doc(cfg: &Config, ops: &[VOp]) -> serde_json::Value {
    json!({"engine": "VEC", "config": cfg, "ops": ops, "schedule": null, "faults": []})
}

pub fn run_one(seed: u64, thorough: bool) -> RunOut {
    let mut rng = Prng::new(seed);
    let (cfg, ops) = generate(&mut rng, thorough);
    let res = run_guarded(&cfg, &ops);
    let mut out = RunOut::default();
    out.hash = fnv(&serde_json::to_vec(&(&cfg, &ops)).unwrap());
    out.shape = fnv(ops.iter().map(|o| o.kind()).collect::<Vec<_>>().join(",").as_bytes()) ^ cfg.dims as u64;
    out.nontrivial = res.nontrivial;
    out.steps = res.steps_done as u64;
    out.probes = res.probes;
    out.digest = res.digest;
    if ops.len() <= 10 {
        out.sample = Some(json!({"seed": seed, "config": cfg, "ops": ops}));
    }
    for (sig, detail) in res.findings {
        out.findings.push(Finding { property: "C18".into(), signature: sig, detail, replay: replay_doc(&cfg, &ops) });
    }
    out
}

pub fn minimise(f: &Finding) -> Finding {
    let cfg: Config = serde_json::from_value(f.replay["config"].clone()).unwrap();
    let ops: Vec<VOp> = serde_json::from_value(f.replay["ops"].clone()).unwrap();
    let sig = f.signature.clone();
    let mut fails = |cand: &[VOp]| run_guarded(&cfg, cand).findings.iter().any(|(s, _)| *s == sig);
    let small = if fails(&ops) { crate::fw::ddmin(&ops, &mut fails, 500) } else { ops.clone() };
    let res = run_guarded(&cfg, &small);
    let detail = res.findings.iter().find(|(s, _)| *s == sig).map(|(_, d)| d.clone()).unwrap_or_else(|| f.detail.clone());
    Finding { property: f.property.clone(), signature: sig, detail, replay: replay_doc(&cfg, &small) }
}

pub fn replay(doc: &serde_json::Value) -> Vec<(String, String)> {
    let cfg: Config = serde_json::from_value(doc["config"].clone()).unwrap();
    let ops: Vec<VOp> = serde_json::from_value(doc["ops"].clone()).unwrap();
    for (i, o) in ops.iter().enumerate() {
        println!("  {i}: {o:?}");
    }
    run_guarded(&cfg, &ops).findings
}
