//! Shared plumbing: batch driver, findings, known-findings file, replay files, evidence.

use std::collections::{BTreeMap, BTreeSet};
use std::io::Write as _;
use std::panic::{AssertUnwindSafe, catch_unwind};
use std::sync::Mutex;
use std::sync::atomic::{AtomicU64, Ordering};
use std::time::Instant;

use serde_json::{Value, json};

use crate::prng::mix;

/// Root for known_findings.jsonl, evidence/ and replays/ (`VERIF_HOME` lets a background
/// sweep from a snapshot write next to itself instead of into /verif).
pub fn verif_dir() -> String {
    std::env::var("VERIF_HOME").unwrap_or_else(|_| "/verif".to_string())
}

#[derive(Clone, Copy, Debug, PartialEq, Eq)]
pub enum Tier {
    Quick,
    Thorough,
}

impl Tier {
    pub fn name(self) -> &'static str {
        match self {
            Tier::Quick => "quick",
            Tier::Thorough => "thorough",
        }
    }
}

/// One discrepancy between the system and its oracle.
#[derive(Clone, Debug)]
pub struct Finding {
    pub property: String,
    /// Structured classification; known findings are matched on this string.
    pub signature: String,
    pub detail: String,
    /// Self-contained replay document (engine, config, explicit operations, schedule, faults).
    pub replay: Value,
}

/// What one simulated run reports.
#[derive(Default)]
pub struct RunOut {
    /// Hash of the explicit case (operation list + schedule/fault trace).
    pub hash: u64,
    /// Hash of the interleaving / overlap pattern (for the distinct-interleavings measure).
    pub shape: u64,
    pub nontrivial: bool,
    pub steps: u64,
    pub sim_ms: u64,
    pub findings: Vec<Finding>,
    pub probes: BTreeMap<&'static str, u64>,
    pub faults: BTreeMap<&'static str, u64>,
    pub sample: Option<Value>,
    /// Canonical event log digest for the determinism self-check.
    pub digest: u64,
}

impl RunOut {
    pub fn probe(&mut self, name: &'static str) {
        *self.probes.entry(name).or_insert(0) += 1;
    }
    pub fn probe_n(&mut self, name: &'static str, n: u64) {
        *self.probes.entry(name).or_insert(0) += n;
    }
    pub fn fault(&mut self, name: &'static str) {
        *self.faults.entry(name).or_insert(0) += 1;
    }
}

pub struct CheckSpec {
    pub property: &'static str,
    pub check_name: &'static str,
    pub level: &'static str,
    pub engine: &'static str,
    pub rule: String,
    pub real: Vec<&'static str>,
    pub stub: Vec<&'static str>,
    pub assumptions: Vec<String>,
    pub unchecked: Vec<String>,
}

#[derive(Clone, Debug)]
pub struct Known {
    pub property: String,
    pub signature: String,
    pub status: String,
}

pub fn load_known() -> Vec<Known> {
    let path = format!("{}/known_findings.jsonl", verif_dir());
    let Ok(text) = std::fs::read_to_string(&path) else {
        return Vec::new();
    };
    let mut out = Vec::new();
    for line in text.lines() {
        let line = line.trim();
        if line.is_empty() || line.starts_with('#') {
            continue;
        }
        match serde_json::from_str::<Value>(line) {
            Ok(v) => out.push(Known {
                property: v["property"].as_str().unwrap_or("").to_string(),
                signature: v["signature"].as_str().unwrap_or("").to_string(),
                status: v["status"].as_str().unwrap_or("open").to_string(),
            }),
            Err(e) => {
                eprintln!("harness error: bad line in known_findings.jsonl: {e}");
                std::process::exit(2);
            }
        }
    }
    out
}

pub fn is_known_open(known: &[Known], property: &str, signature: &str) -> bool {
    known
        .iter()
        .any(|k| k.status == "open" && k.property == property && k.signature == signature)
}

thread_local! {
    static LAST_PANIC: std::cell::RefCell<String> = const { std::cell::RefCell::new(String::new()) };
    pub static QUIET_PANIC: std::cell::Cell<bool> = const { std::cell::Cell::new(false) };
}

pub fn install_panic_hook() {
    let default = std::panic::take_hook();
    std::panic::set_hook(Box::new(move |info| {
        let msg = if let Some(s) = info.payload().downcast_ref::<&str>() {
            (*s).to_string()
        } else if let Some(s) = info.payload().downcast_ref::<String>() {
            s.clone()
        } else {
            "<non-string panic>".to_string()
        };
        let loc = info
            .location()
            .map(|l| format!("{}:{}", l.file(), l.line()))
            .unwrap_or_default();
        LAST_PANIC.with(|p| *p.borrow_mut() = format!("{msg} @ {loc}"));
        if !QUIET_PANIC.with(|q| q.get()) {
            default(info);
        }
    }));
}

/// Runs `f`, turning a panic into `Err(message @ location)`.
pub fn guarded<T>(f: impl FnOnce() -> T) -> Result<T, String> {
    let prev = QUIET_PANIC.with(|q| q.replace(true));
    let r = catch_unwind(AssertUnwindSafe(f));
    QUIET_PANIC.with(|q| q.set(prev));
    r.map_err(|_| LAST_PANIC.with(|p| p.borrow().clone()))
}

/// Strips volatile parts (numbers, hex, quoted payloads) from a panic message so that it
/// can serve as a signature component.
pub fn panic_class(msg: &str) -> String {
    let mut out = String::new();
    let mut last_hash = false;
    for c in msg.chars().take(160) {
        if c.is_ascii_digit() {
            if !last_hash {
                out.push('#');
                last_hash = true;
            }
        } else {
            out.push(c);
            last_hash = false;
        }
    }
    out
}

pub struct Batch {
    pub spec: CheckSpec,
    pub tier: Tier,
    pub seed: u64,
    pub runs: u64,
    pub workers: usize,
}

pub struct BatchResult {
    pub exit: i32,
}

pub fn workers_from_env() -> usize {
    std::env::var("VERIF_WORKERS")
        .ok()
        .and_then(|s| s.parse().ok())
        .unwrap_or_else(|| {
            std::thread::available_parallelism()
                .map(|n| n.get())
                .unwrap_or(8)
                .min(16)
        })
}

/// Distributes runs over worker threads, then folds the outcomes **in run-index order**, so
/// that no output depends on the worker count.
pub fn collect_runs(
    check: &str,
    seed: u64,
    start: u64,
    runs: u64,
    workers: usize,
    run_fn: &(dyn Fn(u64, u64) -> RunOut + Sync),
) -> Vec<RunOut> {
    let next = AtomicU64::new(0);
    let slots: Vec<Mutex<Option<RunOut>>> = (0..runs).map(|_| Mutex::new(None)).collect();
    std::thread::scope(|s| {
        for _ in 0..workers.max(1) {
            s.spawn(|| {
                loop {
                    let k = next.fetch_add(1, Ordering::Relaxed);
                    if k >= runs {
                        break;
                    }
                    let i = start + k;
                    let rs = mix(seed, check, i);
                    let out = match guarded(|| run_fn(rs, i)) {
                        Ok(o) => o,
                        Err(msg) => {
                            // A panic that escaped the engine's own guards is a harness error.
                            eprintln!(
                                "harness error: run {i} (seed {rs}) of {check} panicked outside a guarded region: {msg}"
                            );
                            std::process::exit(2);
                        }
                    };
                    *slots[k as usize].lock().unwrap() = Some(out);
                }
            });
        }
    });
    slots
        .into_iter()
        .map(|m| m.into_inner().unwrap().expect("run missing"))
        .collect()
}

pub type Minimiser<'a> = &'a (dyn Fn(&Finding) -> Finding + Sync);

/// Drives a whole check: executes the batch, classifies findings against the known-findings
/// file, minimises and persists replays for new ones, writes the evidence file, prints the
/// interface lines and returns the exit code.
pub fn drive(
    batch: Batch,
    run_fn: &(dyn Fn(u64, u64) -> RunOut + Sync),
    minimise: Option<Minimiser<'_>>,
    extra: &mut dyn FnMut(&mut serde_json::Map<String, Value>),
) -> i32 {
    let t0 = Instant::now();
    // Runs are executed and folded in chunks (in run-index order, so the result does not
    // depend on the chunk size or the worker count); a chunk's outputs are dropped once
    // folded, which keeps the thorough tiers' memory flat.
    const CHUNK: u64 = 10_000;
    let known = load_known();
    let mut acc = Acc::default();
    let mut start = 0u64;
    while start < batch.runs {
        let n = CHUNK.min(batch.runs - start);
        let outs = collect_runs(batch.spec.check_name, batch.seed, start, n, batch.workers, run_fn);
        acc.absorb(&known, batch.spec.property, start, outs);
        start += n;
    }
    let wall_runs = t0.elapsed().as_secs_f64();
    finish(batch, acc, known, wall_runs, t0, minimise, extra)
}

/// What a batch folds its runs into.
#[derive(Default)]
pub struct Acc {
    runs: u64,
    distinct: BTreeSet<u64>,
    shapes: BTreeSet<u64>,
    probes: BTreeMap<&'static str, u64>,
    faults: BTreeMap<&'static str, u64>,
    samples: Vec<Value>,
    fallback_samples: Vec<Value>,
    steps: u64,
    sim_ms: u64,
    known_seen: BTreeMap<String, u64>,
    new_seen: BTreeMap<String, (u64, Finding)>,
    clean_runs: u64,
    digest: u64,
    steps_hist: BTreeMap<u64, u64>,
}

impl Acc {
    fn absorb(&mut self, known: &[Known], prop: &str, start: u64, outs: Vec<RunOut>) {
        for (k, o) in outs.into_iter().enumerate() {
            let i = start + k as u64;
            self.runs += 1;
            if o.nontrivial {
                self.distinct.insert(o.hash);
            }
            self.shapes.insert(o.shape);
            for (k, v) in &o.probes {
                *self.probes.entry(k).or_insert(0) += v;
            }
            for (k, v) in &o.faults {
                *self.faults.entry(k).or_insert(0) += v;
            }
            self.steps += o.steps;
            self.sim_ms += o.sim_ms;
            *self.steps_hist.entry((o.steps / 8) * 8).or_insert(0) += 1;
            self.digest = self.digest.rotate_left(5).wrapping_add(o.digest ^ i.wrapping_mul(0x9E37_79B9));
            if let Some(s) = &o.sample {
                if self.samples.len() < 3 && o.nontrivial {
                    self.samples.push(s.clone());
                } else if self.fallback_samples.len() < 2 {
                    self.fallback_samples.push(s.clone());
                }
            }
            let mut any = false;
            for f in o.findings {
                if f.property != prop {
                    continue;
                }
                any = true;
                if is_known_open(known, prop, &f.signature) {
                    *self.known_seen.entry(f.signature.clone()).or_insert(0) += 1;
                } else {
                    match self.new_seen.get_mut(&f.signature) {
                        Some(e) => e.0 += 1,
                        None => {
                            self.new_seen.insert(f.signature.clone(), (1, f));
                        }
                    }
                }
            }
            if !any {
                self.clean_runs += 1;
            }
        }
    }
}

pub fn finish(
    batch: Batch,
    acc: Acc,
    _known: Vec<Known>,
    wall_runs: f64,
    t0: Instant,
    minimise: Option<Minimiser<'_>>,
    extra: &mut dyn FnMut(&mut serde_json::Map<String, Value>),
) -> i32 {
    let prop = batch.spec.property;
    let Acc { runs: n_runs, distinct, shapes, probes, faults, mut samples, fallback_samples, steps, sim_ms, known_seen, new_seen, clean_runs, digest, steps_hist } = acc;
    if samples.is_empty() {
        samples = fallback_samples;
    }

    // Interface lines.
    for (sig, n) in &known_seen {
        println!("KNOWN-FINDING: property={prop} {sig} (seen {n}x)");
    }
    let mut violations = 0;
    let _ = std::fs::create_dir_all(format!("{}/replays", verif_dir()));
    // VERIF_CALIBRATE=1 (development aid): write and minimise a replay for every new signature
    let calibrate = std::env::var("VERIF_CALIBRATE").is_ok();
    let (cap, min_cap) = if calibrate { (400, 400) } else { (8, 4) };
    for (n, (sig, (count, f))) in new_seen.iter().enumerate() {
        violations += 1;
        if n >= cap {
            println!("(further distinct violation signature suppressed: {sig} x{count})");
            continue;
        }
        let f2 = match minimise {
            Some(m) if n < min_cap => m(f),
            _ => f.clone(),
        };
        let path = format!(
            "{}/replays/{}-{}-{}-{}.json",
            verif_dir(),
            batch.spec.check_name,
            batch.tier.name(),
            batch.seed,
            n
        );
        let doc = json!({
            "property": prop,
            "check": batch.spec.check_name,
            "engine": batch.spec.engine,
            "signature": f2.signature,
            "detail": f2.detail,
            "batch_seed": batch.seed,
            "occurrences_in_batch": count,
            "replay": f2.replay,
        });
        match std::fs::File::create(&path)
            .and_then(|mut fh| fh.write_all(serde_json::to_string_pretty(&doc).unwrap().as_bytes()))
        {
            Ok(()) => {}
            Err(e) => {
                eprintln!("harness error: cannot write replay {path}: {e}");
                return 2;
            }
        }
        println!("violation: {} :: {}", f2.signature, f2.detail);
        println!("VIOLATION property={prop} replay={path}");
    }

    let wall = t0.elapsed().as_secs_f64();
    let mut cov = serde_json::Map::new();
    cov.insert("evaluations".into(), json!(n_runs));
    cov.insert("distinct_nontrivial".into(), json!(distinct.len()));
    cov.insert("rule".into(), json!(batch.spec.rule));
    cov.insert("samples".into(), Value::Array(samples));
    cov.insert("exhaustive".into(), json!(false));
    cov.insert("engine".into(), json!(batch.spec.engine));
    cov.insert("runs".into(), json!(n_runs));
    cov.insert(
        "runs_per_hour".into(),
        json!((n_runs as f64 / wall_runs.max(1e-6) * 3600.0) as u64),
    );
    cov.insert(
        "seeds_per_hour".into(),
        json!((n_runs as f64 / wall_runs.max(1e-6) * 3600.0) as u64),
    );
    cov.insert("steps_total".into(), json!(steps));
    cov.insert("sim_time_covered_ms".into(), json!(sim_ms));
    cov.insert("distinct_interleavings".into(), json!(shapes.len()));
    cov.insert(
        "distinct_interleavings_measure".into(),
        json!("distinct hashes of the per-run interleaving shape (sequence of (actor, operation kind) pairs, or the scheduler's recorded schedule)"),
    );
    cov.insert("faults_injected".into(), json!(faults));
    cov.insert("probes".into(), json!(probes));
    cov.insert("runs_without_any_finding".into(), json!(clean_runs));
    cov.insert(
        "run_length_histogram_steps".into(),
        json!(steps_hist
            .iter()
            .map(|(k, v)| (format!("{k}+"), *v))
            .collect::<BTreeMap<_, _>>()),
    );
    cov.insert("known_findings_seen".into(), json!(known_seen));
    cov.insert(
        "components".into(),
        json!({"real": batch.spec.real, "stub": batch.spec.stub}),
    );
    cov.insert("unchecked_cases".into(), json!(batch.spec.unchecked));
    cov.insert("workers".into(), json!(batch.workers));
    cov.insert("batch_digest".into(), json!(format!("{digest:016x}")));
    extra(&mut cov);

    let ev = json!({
        "property_id": prop,
        "tier": batch.tier.name(),
        "seed": batch.seed,
        "level": batch.spec.level,
        "coverage": Value::Object(cov),
        "assumptions": batch.spec.assumptions,
        "wall_s": wall,
        "violations": violations,
    });
    let ev_dir = format!("{}/evidence", verif_dir());
    let _ = std::fs::create_dir_all(&ev_dir);
    let ev_path = format!("{ev_dir}/{prop}.json");
    if let Err(e) = std::fs::write(&ev_path, serde_json::to_string_pretty(&ev).unwrap()) {
        eprintln!("harness error: cannot write evidence {ev_path}: {e}");
        return 2;
    }
    println!(
        "{prop} [{}] tier={} seed={} runs={} distinct_nontrivial={} known_signatures={} violations={} wall={:.1}s digest={digest:016x}",
        batch.spec.check_name,
        batch.tier.name(),
        batch.seed,
        n_runs,
        distinct.len(),
        known_seen.len(),
        violations,
        wall
    );
    if distinct.len() < 2 {
        eprintln!("harness error: fewer than 2 distinct non-trivial cases");
        return 2;
    }
    if violations > 0 { 1 } else { 0 }
}

/// Generic delta debugging on an operation list: tries to drop chunks, then single
/// operations, while `still_fails` holds. Bounded number of probes.
pub fn ddmin<T: Clone>(ops: &[T], still_fails: &mut dyn FnMut(&[T]) -> bool, budget: usize) -> Vec<T> {
    let mut cur: Vec<T> = ops.to_vec();
    let mut probes = 0usize;
    let mut chunk = (cur.len() / 2).max(1);
    while chunk >= 1 && probes < budget {
        let mut i = 0;
        let mut removed_any = false;
        while i < cur.len() && probes < budget {
            let end = (i + chunk).min(cur.len());
            let mut cand = cur[..i].to_vec();
            cand.extend_from_slice(&cur[end..]);
            probes += 1;
            if !cand.is_empty() && still_fails(&cand) {
                cur = cand;
                removed_any = true;
            } else {
                i += chunk;
            }
        }
        if chunk == 1 && !removed_any {
            break;
        }
        if !removed_any {
            chunk /= 2;
        }
    }
    cur
}
