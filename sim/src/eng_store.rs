//! STORE — single-store history simulator over `LpgStore` (C14).
//!
//! Every mutating call of the store is a generated operation; after every step all access
//! paths are compared with the brute-force answers of `RefGraph`.

use std::collections::{BTreeMap, BTreeSet};

use grafeo_common::types::{EdgeId, NodeId, PropertyKey};
use grafeo_core::graph::Direction;
use grafeo_core::graph::lpg::{CompareOp, LpgStore};
use serde::{Deserialize, Serialize};
use serde_json::json;

use crate::fw::{Finding, RunOut, guarded, panic_class};
use crate::model_graph::{MEdge, MNode, RefGraph, SV, gen_value};
use crate::prng::{Prng, fnv};

pub const LABELS: [&str; 3] = ["A", "B", "C"];
pub const KEYS: [&str; 3] = ["k", "m", "z"];
pub const TYPES: [&str; 2] = ["R", "S"];

#[derive(Clone, Debug, PartialEq, Serialize, Deserialize)]
pub enum Op {
    CreateNode(Vec<u8>),
    CreateNodeProps(Vec<u8>, Vec<(u8, SV)>),
    /// Detach-delete (delete_node_edges, then delete_node) of node slot.
    DeleteNode(usize),
    /// Plain delete_node; only generated for nodes without live incident edges.
    DeleteNodePlain(usize),
    CreateEdge(usize, usize, u8),
    CreateEdgeProps(usize, usize, u8, Vec<(u8, SV)>),
    DeleteEdge(usize),
    SetNodeProp(usize, u8, SV),
    RemoveNodeProp(usize, u8),
    SetEdgeProp(usize, u8, SV),
    RemoveEdgeProp(usize, u8),
    AddLabel(usize, u8),
    RemoveLabel(usize, u8),
    CreateIndex(u8),
    DropIndex(u8),
    ComputeStats,
    EnsureStatsFresh,
    RebuildZoneMaps,
}

impl Op {
    pub fn kind(&self) -> &'static str {
        match self {
            Op::CreateNode(_) => "create_node",
            Op::CreateNodeProps(..) => "create_node_with_props",
            Op::DeleteNode(_) => "detach_delete_node",
            Op::DeleteNodePlain(_) => "delete_node",
            Op::CreateEdge(..) => "create_edge",
            Op::CreateEdgeProps(..) => "create_edge_with_props",
            Op::DeleteEdge(_) => "delete_edge",
            Op::SetNodeProp(..) => "set_node_property",
            Op::RemoveNodeProp(..) => "remove_node_property",
            Op::SetEdgeProp(..) => "set_edge_property",
            Op::RemoveEdgeProp(..) => "remove_edge_property",
            Op::AddLabel(..) => "add_label",
            Op::RemoveLabel(..) => "remove_label",
            Op::CreateIndex(_) => "create_property_index",
            Op::DropIndex(_) => "drop_property_index",
            Op::ComputeStats => "compute_statistics",
            Op::EnsureStatsFresh => "ensure_statistics_fresh",
            Op::RebuildZoneMaps => "rebuild_zone_maps",
        }
    }
}

#[derive(Clone, Debug, Serialize, Deserialize)]
pub struct Config {
    pub backward: bool,
    /// Full cross-check after every `check_every` steps (1 = every step).
    pub check_every: usize,
}

pub struct ExecResult {
    pub findings: Vec<(String, String)>,
    pub probes: BTreeMap<&'static str, u64>,
    pub steps_done: usize,
    pub nontrivial: bool,
    pub digest: u64,
}

fn sorted<T: Ord>(mut v: Vec<T>) -> Vec<T> {
    v.sort();
    v
}

struct Ctx<'a> {
    store: &'a LpgStore,
    model: &'a RefGraph,
    node_ids: &'a [u64],
    edge_ids: &'a [u64],
    indexed: &'a BTreeSet<u8>,
    cfg: &'a Config,
    stats_fresh: bool,
    zone_rebuilt_clean: bool,
}

/// Compares every access path with the model; returns the first discrepancy as
/// (accessor, kind, detail).
fn cross_check(c: &Ctx<'_>, rng: &mut Prng, probes: &mut BTreeMap<&'static str, u64>) -> Vec<(String, String)> {
    let mut out: Vec<(String, String)> = Vec::new();
    cross_check_inner(c, rng, probes, &mut out);
    out
}

fn cross_check_inner(
    c: &Ctx<'_>,
    rng: &mut Prng,
    probes: &mut BTreeMap<&'static str, u64>,
    acc: &mut Vec<(String, String)>,
) {
    let s = c.store;
    let m = c.model;
    // counts & enumeration
    if s.node_count() != m.nodes.len() {
        acc.push((
            "accessor=node_count | kind=count-mismatch".into(),
            format!("node_count {} vs model {}", s.node_count(), m.nodes.len()),
        ));
    }
    if s.edge_count() != m.edges.len() {
        acc.push((
            "accessor=edge_count | kind=count-mismatch".into(),
            format!("edge_count {} vs model {}", s.edge_count(), m.edges.len()),
        ));
    }
    let ids: Vec<u64> = s.node_ids().iter().map(|n| n.as_u64()).collect();
    let want: Vec<u64> = m.nodes.keys().copied().collect();
    if ids != want {
        acc.push((
            "accessor=node_ids | kind=set-mismatch".into(),
            format!("{ids:?} vs {want:?}"),
        ));
    }
    let all_n: Vec<u64> = sorted(s.all_nodes().map(|n| n.id.as_u64()).collect());
    if all_n != want {
        acc.push((
            "accessor=all_nodes | kind=set-mismatch".into(),
            format!("{all_n:?} vs {want:?}"),
        ));
    }
    let all_e: Vec<u64> = sorted(s.all_edges().map(|e| e.id.as_u64()).collect());
    let want_e: Vec<u64> = m.edges.keys().copied().collect();
    if all_e != want_e {
        acc.push((
            "accessor=all_edges | kind=set-mismatch".into(),
            format!("{all_e:?} vs {want_e:?}"),
        ));
    }
    // per node
    for &id in c.node_ids {
        let got = s.get_node(NodeId::new(id));
        match (got, m.nodes.get(&id)) {
            (None, None) => {}
            (Some(_), None) => {
                acc.push((
                    "accessor=get_node | kind=deleted-entity-visible".into(),
                    format!("node {id}"),
                ));
            }
            (None, Some(_)) => {
                acc.push((
                    "accessor=get_node | kind=live-entity-missing".into(),
                    format!("node {id}"),
                ));
            }
            (Some(n), Some(mn)) => {
                let labels: BTreeSet<String> = n.labels.iter().map(|l| l.to_string()).collect();
                if labels != mn.labels || n.labels.len() != mn.labels.len() {
                    acc.push((
                        "accessor=get_node.labels | kind=mismatch".into(),
                        format!("node {id}: {:?} vs {:?}", n.labels, mn.labels),
                    ));
                }
                let props: BTreeMap<String, SV> = n
                    .properties
                    .iter()
                    .map(|(k, v)| (k.as_str().to_string(), SV::from_value(v)))
                    .collect();
                if props != mn.props {
                    acc.push((
                        "accessor=get_node.properties | kind=mismatch".into(),
                        format!("node {id}: {props:?} vs {:?}", mn.props),
                    ));
                }
                for k in KEYS {
                    let g = s
                        .get_node_property(NodeId::new(id), &PropertyKey::new(k))
                        .map(|v| SV::from_value(&v));
                    if g.as_ref() != mn.props.get(k) {
                        acc.push((
                            "accessor=get_node_property | kind=mismatch".into(),
                            format!("node {id}.{k}: {g:?} vs {:?}", mn.props.get(k)),
                        ));
                    }
                }
            }
        }
        // adjacency of every id ever handed out (deleted ones must have none)
        let nid = NodeId::new(id);
        let out: Vec<(u64, u64)> = sorted(
            s.edges_from(nid, Direction::Outgoing)
                .map(|(t, e)| (t.as_u64(), e.as_u64()))
                .collect(),
        );
        let want_out = m.out_edges(id);
        if out != want_out {
            acc.push((
                "accessor=edges_from(Outgoing) | kind=multiset-mismatch".into(),
                format!("node {id}: {out:?} vs {want_out:?}"),
            ));
        }
        let nb: Vec<u64> = sorted(s.neighbors(nid, Direction::Outgoing).map(|n| n.as_u64()).collect());
        let want_nb: Vec<u64> = sorted(want_out.iter().map(|(t, _)| *t).collect());
        if nb != want_nb {
            acc.push((
                "accessor=neighbors(Outgoing) | kind=multiset-mismatch".into(),
                format!("node {id}: {nb:?} vs {want_nb:?}"),
            ));
        }
        if s.out_degree(nid) != want_out.len() {
            acc.push((
                "accessor=out_degree | kind=count-mismatch".into(),
                format!("node {id}: {} vs {}", s.out_degree(nid), want_out.len()),
            ));
        }
        let want_in = m.in_edges(id);
        let inn: Vec<(u64, u64)> = sorted(
            s.edges_to(nid)
                .into_iter()
                .map(|(t, e)| (t.as_u64(), e.as_u64()))
                .collect(),
        );
        if inn != want_in {
            acc.push((
                format!("accessor=edges_to | kind=multiset-mismatch | backward={}", c.cfg.backward),
                format!("node {id}: {inn:?} vs {want_in:?}"),
            ));
        }
        if s.in_degree(nid) != want_in.len() {
            acc.push((
                format!("accessor=in_degree | kind=count-mismatch | backward={}", c.cfg.backward),
                format!("node {id}: {} vs {}", s.in_degree(nid), want_in.len()),
            ));
        }
        let nbi: Vec<u64> = sorted(s.neighbors(nid, Direction::Incoming).map(|n| n.as_u64()).collect());
        let want_nbi: Vec<u64> = sorted(want_in.iter().map(|(t, _)| *t).collect());
        if nbi != want_nbi {
            acc.push((
                format!(
                    "accessor=neighbors(Incoming) | kind=multiset-mismatch | backward={}",
                    c.cfg.backward
                ),
                format!("node {id}: {nbi:?} vs {want_nbi:?}"),
            ));
        }
        let ein: Vec<(u64, u64)> = sorted(
            s.edges_from(nid, Direction::Incoming)
                .map(|(t, e)| (t.as_u64(), e.as_u64()))
                .collect(),
        );
        if ein != want_in {
            acc.push((
                format!(
                    "accessor=edges_from(Incoming) | kind=multiset-mismatch | backward={}",
                    c.cfg.backward
                ),
                format!("node {id}: {ein:?} vs {want_in:?}"),
            ));
        }
    }
    // per edge
    for &id in c.edge_ids {
        let got = s.get_edge(EdgeId::new(id));
        match (got, m.edges.get(&id)) {
            (None, None) => {}
            (Some(_), None) => {
                acc.push((
                    "accessor=get_edge | kind=deleted-entity-visible".into(),
                    format!("edge {id}"),
                ));
            }
            (None, Some(_)) => {
                acc.push((
                    "accessor=get_edge | kind=live-entity-missing".into(),
                    format!("edge {id}"),
                ));
            }
            (Some(e), Some(me)) => {
                let props: BTreeMap<String, SV> = e
                    .properties
                    .iter()
                    .map(|(k, v)| (k.as_str().to_string(), SV::from_value(v)))
                    .collect();
                if e.src.as_u64() != me.src
                    || e.dst.as_u64() != me.dst
                    || e.edge_type.as_str() != me.ty
                    || props != me.props
                {
                    acc.push((
                        "accessor=get_edge | kind=mismatch".into(),
                        format!("edge {id}: {e:?} vs {me:?}"),
                    ));
                }
                if s.edge_type(EdgeId::new(id)).map(|t| t.to_string()) != Some(me.ty.clone()) {
                    acc.push((
                        "accessor=edge_type | kind=mismatch".into(),
                        format!("edge {id}"),
                    ));
                }
            }
        }
    }
    for t in TYPES {
        let got: Vec<u64> = sorted(s.edges_with_type(t).map(|e| e.id.as_u64()).collect());
        let want: Vec<u64> = m.edges.iter().filter(|(_, e)| e.ty == t).map(|(i, _)| *i).collect();
        if got != want {
            acc.push((
                "accessor=edges_with_type | kind=set-mismatch".into(),
                format!("{t}: {got:?} vs {want:?}"),
            ));
        }
    }
    // single edge properties, batch property getters, iterators by label, dictionaries
    for &id in c.edge_ids {
        for k in KEYS {
            let g = s.get_edge_property(EdgeId::new(id), &PropertyKey::new(k)).map(|v| SV::from_value(&v));
            let want = m.edges.get(&id).and_then(|e| e.props.get(k));
            if g.as_ref() != want {
                acc.push(("accessor=get_edge_property | kind=mismatch".into(), format!("edge {id}.{k}: {g:?} vs {want:?}")));
            }
        }
        if let Some(me) = m.edges.get(&id) {
            for (k, v) in &me.props {
                if !s.edge_property_might_match(&PropertyKey::new(k.as_str()), CompareOp::Eq, &v.to_value()) {
                    acc.push((format!("accessor=edge_property_might_match(Eq) | kind=false-negative | value={}", v.class()), format!("edge {id}.{k}={v:?} exists")));
                }
            }
        }
    }
    {
        let all: Vec<NodeId> = c.node_ids.iter().map(|i| NodeId::new(*i)).collect();
        let keys: Vec<PropertyKey> = KEYS.iter().map(|k| PropertyKey::new(*k)).collect();
        let conv = |mp: &grafeo_common::utils::hash::FxHashMap<PropertyKey, grafeo_common::types::Value>| -> BTreeMap<String, SV> { mp.iter().map(|(k, v)| (k.as_str().to_string(), SV::from_value(v))).collect() };
        let empty = BTreeMap::new();
        let full = s.get_nodes_properties_batch(&all);
        let sel = s.get_nodes_properties_selective_batch(&all, &keys[..1]);
        if full.len() != all.len() || sel.len() != all.len() {
            acc.push(("accessor=get_nodes_properties_batch | kind=wrong-length".into(), format!("{} / {} results for {} ids", full.len(), sel.len(), all.len())));
        } else {
            for (i, id) in c.node_ids.iter().enumerate() {
                let want = m.nodes.get(id).map_or(&empty, |n| &n.props);
                if conv(&full[i]) != *want {
                    acc.push(("accessor=get_nodes_properties_batch | kind=mismatch".into(), format!("node {id}: {:?} vs {want:?}", conv(&full[i]))));
                }
                let want_sel: BTreeMap<String, SV> = want.iter().filter(|(k, _)| k.as_str() == KEYS[0]).map(|(k, v)| (k.clone(), v.clone())).collect();
                if conv(&sel[i]) != want_sel {
                    acc.push(("accessor=get_nodes_properties_selective_batch | kind=mismatch".into(), format!("node {id}: {:?} vs {want_sel:?}", conv(&sel[i]))));
                }
            }
        }
        for k in KEYS {
            let col = s.get_node_property_batch(&all, &PropertyKey::new(k));
            if col.len() != all.len() {
                acc.push(("accessor=get_node_property_batch | kind=wrong-length".into(), format!("{} results for {} ids", col.len(), all.len())));
                continue;
            }
            for (i, id) in c.node_ids.iter().enumerate() {
                let g = col[i].as_ref().map(SV::from_value);
                let want = m.nodes.get(id).and_then(|n| n.props.get(k));
                if g.as_ref() != want {
                    acc.push(("accessor=get_node_property_batch | kind=mismatch".into(), format!("node {id}.{k}: {g:?} vs {want:?}")));
                }
            }
        }
        let alle: Vec<EdgeId> = c.edge_ids.iter().map(|i| EdgeId::new(*i)).collect();
        let esel = s.get_edges_properties_selective_batch(&alle, &keys);
        if esel.len() != alle.len() {
            acc.push(("accessor=get_edges_properties_selective_batch | kind=wrong-length".into(), format!("{} results for {} ids", esel.len(), alle.len())));
        } else {
            for (i, id) in c.edge_ids.iter().enumerate() {
                let want = m.edges.get(id).map_or(&empty, |e| &e.props);
                if conv(&esel[i]) != *want {
                    acc.push(("accessor=get_edges_properties_selective_batch | kind=mismatch".into(), format!("edge {id}: {:?} vs {want:?}", conv(&esel[i]))));
                }
            }
        }
    }
    for l in LABELS {
        let got: Vec<u64> = sorted(s.nodes_with_label(l).map(|n| n.id.as_u64()).collect());
        let want = m.label_members(l);
        if got != want {
            acc.push(("accessor=nodes_with_label | kind=set-mismatch".into(), format!("{l}: {got:?} vs {want:?}")));
        }
    }
    {
        // the dictionaries list every name in use (they may keep names no longer in use)
        let labels: BTreeSet<String> = s.all_labels().into_iter().collect();
        let types: BTreeSet<String> = s.all_edge_types().into_iter().collect();
        let pkeys: BTreeSet<String> = s.all_property_keys().into_iter().collect();
        for n in m.nodes.values() {
            for l in &n.labels {
                if !labels.contains(l) {
                    acc.push(("accessor=all_labels | kind=name-in-use-missing".into(), l.clone()));
                }
            }
            for k in n.props.keys() {
                if !pkeys.contains(k) {
                    acc.push(("accessor=all_property_keys | kind=name-in-use-missing".into(), k.clone()));
                }
            }
        }
        for e in m.edges.values() {
            if !types.contains(&e.ty) {
                acc.push(("accessor=all_edge_types | kind=name-in-use-missing".into(), e.ty.clone()));
            }
        }
        if s.label_count() != labels.len() {
            acc.push(("accessor=label_count | kind=count-mismatch".into(), format!("{} vs {} listed", s.label_count(), labels.len())));
        }
        if s.edge_type_count() != types.len() {
            acc.push(("accessor=edge_type_count | kind=count-mismatch".into(), format!("{} vs {} listed", s.edge_type_count(), types.len())));
        }
    }
    // labels
    for l in LABELS {
        let got: Vec<u64> = s.nodes_by_label(l).iter().map(|n| n.as_u64()).collect();
        let want = m.label_members(l);
        if got != want {
            let kind = if got.iter().any(|g| !m.nodes.contains_key(g)) {
                "deleted-entity-visible"
            } else {
                "set-mismatch"
            };
            acc.push((
                format!("accessor=nodes_by_label | kind={kind}"),
                format!("{l}: {got:?} vs {want:?}"),
            ));
        }
    }
    // property lookups: every value in use for each key, plus one absent value
    for (ki, k) in KEYS.iter().enumerate() {
        let mut vals: Vec<SV> = m
            .nodes
            .values()
            .filter_map(|n| n.props.get(*k).cloned())
            .collect();
        vals.sort();
        vals.dedup();
        vals.push(SV::Int(-777));
        let indexed = c.indexed.contains(&(ki as u8));
        if s.has_property_index(k) != indexed {
            acc.push((
                "accessor=has_property_index | kind=mismatch".into(),
                format!("{k}: {} vs {indexed}", s.has_property_index(k)),
            ));
        }
        for v in &vals {
            let got: Vec<u64> = sorted(
                s.find_nodes_by_property(k, &v.to_value())
                    .iter()
                    .map(|n| n.as_u64())
                    .collect(),
            );
            let want = m.nodes_with_prop_eq(k, v);
            if got != want {
                let kind = if got.iter().any(|g| !m.nodes.contains_key(g)) {
                    "deleted-entity-visible"
                } else if got.len() < want.len() {
                    "missing"
                } else {
                    "extra"
                };
                acc.push((
                    format!(
                        "accessor=find_nodes_by_property | kind={kind} | indexed={indexed} | value={}",
                        if v.is_odd_float() { v.class() } else { "ordinary" }
                    ),
                    format!("{k}={v:?}: {got:?} vs {want:?}"),
                ));
            }
            *probes.entry(if indexed { "lookup_via_index" } else { "lookup_via_scan" }).or_insert(0) += 1;
            // pruning is one-directional: 'no match' must be true
            if !want.is_empty()
                && !s.node_property_might_match(&PropertyKey::new(*k), CompareOp::Eq, &v.to_value())
            {
                acc.push((
                    format!("accessor=node_property_might_match(Eq) | kind=false-negative | value={}", v.class()),
                    format!("{k}={v:?} has matches {want:?}"),
                ));
            }
        }
        // conjunction lookup
        if vals.len() >= 2 && rng.chance(1, 3) {
            let v = &vals[0];
            let k2 = KEYS[(ki + 1) % KEYS.len()];
            let v2s: Vec<SV> = m.nodes.values().filter_map(|n| n.props.get(k2).cloned()).collect();
            if let Some(v2) = v2s.first() {
                let got: Vec<u64> = sorted(
                    s.find_nodes_by_properties(&[(k, v.to_value()), (k2, v2.to_value())])
                        .iter()
                        .map(|n| n.as_u64())
                        .collect(),
                );
                let want: Vec<u64> = m
                    .nodes
                    .iter()
                    .filter(|(_, n)| {
                        n.props.get(*k).is_some_and(|x| x.scan_eq(v))
                            && n.props.get(k2).is_some_and(|x| x.scan_eq(v2))
                    })
                    .map(|(i, _)| *i)
                    .collect();
                if got != want && !(v.is_odd_float() || v2.is_odd_float()) {
                    acc.push((
                        format!(
                            "accessor=find_nodes_by_properties | kind=mismatch | indexed={}",
                            indexed || c.indexed.contains(&(((ki + 1) % KEYS.len()) as u8))
                        ),
                        format!("{k}={v:?},{k2}={v2:?}: {got:?} vs {want:?}"),
                    ));
                }
            }
        }
        // ranges over the numeric / string values in use
        let cands: Vec<SV> = vals
            .iter()
            .filter(|v| matches!(v, SV::Int(_) | SV::F(_) | SV::Str(_)) && !v.is_odd_float())
            .cloned()
            .collect();
        if !cands.is_empty() {
            let lo = rng.pick(&cands).clone();
            let hi = rng.pick(&cands).clone();
            let (li, hi_inc) = (rng.chance(1, 2), rng.chance(1, 2));
            let use_lo = rng.chance(3, 4);
            let use_hi = rng.chance(3, 4);
            let lo_v = lo.to_value();
            let hi_v = hi.to_value();
            let got: Vec<u64> = sorted(
                s.find_nodes_in_range(
                    k,
                    if use_lo { Some(&lo_v) } else { None },
                    if use_hi { Some(&hi_v) } else { None },
                    li,
                    hi_inc,
                )
                .iter()
                .map(|n| n.as_u64())
                .collect(),
            );
            let want: Vec<u64> = m
                .nodes
                .iter()
                .filter(|(_, n)| {
                    n.props.get(*k).is_some_and(|x| {
                        let ok_lo = !use_lo
                            || match x.cmp_range(&lo) {
                                Some(std::cmp::Ordering::Greater) => true,
                                Some(std::cmp::Ordering::Equal) => li,
                                _ => false,
                            };
                        let ok_hi = !use_hi
                            || match x.cmp_range(&hi) {
                                Some(std::cmp::Ordering::Less) => true,
                                Some(std::cmp::Ordering::Equal) => hi_inc,
                                _ => false,
                            };
                        ok_lo && ok_hi
                    })
                })
                .map(|(i, _)| *i)
                .collect();
            // Only judged where "comparable" is unambiguous: the bounds in use have one type
            // and no stored value under this key is a number of the other numeric type
            // (the statement does not define int/float cross-type ranges).
            let bound_ty = if use_lo { Some(std::mem::discriminant(&lo)) } else if use_hi { Some(std::mem::discriminant(&hi)) } else { None };
            let numeric = |v: &SV| matches!(v, SV::Int(_) | SV::F(_));
            let cross = m.nodes.values().any(|n| {
                n.props.get(*k).is_some_and(|x| {
                    numeric(x)
                        && ((use_lo && numeric(&lo) && std::mem::discriminant(x) != std::mem::discriminant(&lo))
                            || (use_hi && numeric(&hi) && std::mem::discriminant(x) != std::mem::discriminant(&hi)))
                })
            });
            let same_type = !cross
                && (!(use_lo && use_hi) || std::mem::discriminant(&lo) == std::mem::discriminant(&hi))
                && bound_ty.is_some();
            if got != want && same_type {
                let kind = if got.len() < want.len() { "missing" } else { "extra" };
                acc.push((
                    format!("accessor=find_nodes_in_range | kind={kind}"),
                    format!(
                        "{k} in {}{lo:?},{hi:?}{} (lo used {use_lo}, hi used {use_hi}): {got:?} vs {want:?}",
                        if li { "[" } else { "(" },
                        if hi_inc { "]" } else { ")" }
                    ),
                ));
            }
            *probes.entry("range_lookup").or_insert(0) += 1;
            // pruning on ranges, one-directional
            for (op, v, inc) in [(CompareOp::Gt, &lo, false), (CompareOp::Ge, &lo, true), (CompareOp::Lt, &hi, false), (CompareOp::Le, &hi, true)] {
                let exists = m.nodes.values().any(|n| {
                    n.props.get(*k).is_some_and(|x| match (op, x.cmp_range(v)) {
                        (CompareOp::Gt | CompareOp::Ge, Some(std::cmp::Ordering::Greater)) => true,
                        (CompareOp::Lt | CompareOp::Le, Some(std::cmp::Ordering::Less)) => true,
                        (_, Some(std::cmp::Ordering::Equal)) => inc,
                        _ => false,
                    })
                });
                if exists && !s.node_property_might_match(&PropertyKey::new(*k), op, &v.to_value()) {
                    acc.push((
                        format!("accessor=node_property_might_match({op:?}) | kind=false-negative"),
                        format!("{k} {op:?} {v:?} has a match"),
                    ));
                }
            }
        }
    }
    // statistics totals after a refresh
    if c.stats_fresh {
        let st = s.statistics();
        if st.total_nodes != m.nodes.len() as u64 || st.total_edges != m.edges.len() as u64 {
            acc.push((
                "accessor=statistics.totals | kind=count-mismatch".into(),
                format!(
                    "nodes {} vs {}, edges {} vs {}",
                    st.total_nodes,
                    m.nodes.len(),
                    st.total_edges,
                    m.edges.len()
                ),
            ));
        }
        for l in LABELS {
            let want = m.label_members(l).len() as u64;
            let got = st.get_label(l).map_or(0, |x| x.node_count);
            if got != want {
                acc.push((
                    "accessor=statistics.label | kind=count-mismatch".into(),
                    format!("{l}: {got} vs {want}"),
                ));
            }
        }
        for t in TYPES {
            let want = m.edges.values().filter(|e| e.ty == t).count() as u64;
            let got = st.get_edge_type(t).map_or(0, |x| x.edge_count);
            if got != want {
                acc.push((
                    "accessor=statistics.edge_type | kind=count-mismatch".into(),
                    format!("{t}: {got} vs {want}"),
                ));
            }
        }
        *probes.entry("stats_checked_fresh").or_insert(0) += 1;
    }
    let _ = c.zone_rebuilt_clean;
}

/// `LpgStoreConfig` is public but not re-exported by grafeo-core; its type is recovered by
/// inference from `LpgStore::with_config`.
pub fn store_with(backward: bool) -> LpgStore {
    fn make<C: Default>(ctor: impl FnOnce(C) -> LpgStore, tweak: impl FnOnce(&mut C)) -> LpgStore {
        let mut c = C::default();
        tweak(&mut c);
        ctor(c)
    }
    make(LpgStore::with_config, |c| c.backward_edges = backward)
}

pub fn exec(cfg: &Config, ops: &[Op], check_seed: u64) -> ExecResult {
    let store = store_with(cfg.backward);
    let mut model = RefGraph::default();
    let mut node_ids: Vec<u64> = Vec::new();
    let mut edge_ids: Vec<u64> = Vec::new();
    let mut indexed: BTreeSet<u8> = BTreeSet::new();
    let mut probes: BTreeMap<&'static str, u64> = BTreeMap::new();
    let mut findings = Vec::new();
    let mut rng = Prng::new(check_seed);
    let mut stats_fresh = false;
    let mut digest = 0u64;
    let mut max_out = 0usize;
    let mut steps_done = 0;
    let mut seen_ids: BTreeSet<(bool, u64)> = BTreeSet::new();

    let labels_of = |ls: &[u8]| -> Vec<&'static str> {
        let mut v: Vec<&'static str> = Vec::new();
        for l in ls {
            let s = LABELS[*l as usize % 3];
            if !v.contains(&s) {
                v.push(s);
            }
        }
        v
    };

    for (step, op) in ops.iter().enumerate() {
        let mut mutated = true;
        match op {
            Op::CreateNode(ls) => {
                let ls = labels_of(ls);
                let id = store.create_node(&ls).as_u64();
                if !seen_ids.insert((true, id)) {
                    findings.push(("accessor=create_node | kind=duplicate-id".to_string(), format!("node id {id}")));
                    break;
                }
                node_ids.push(id);
                model.nodes.insert(
                    id,
                    MNode {
                        labels: ls.iter().map(|s| s.to_string()).collect(),
                        props: BTreeMap::new(),
                    },
                );
            }
            Op::CreateNodeProps(ls, ps) => {
                let ls = labels_of(ls);
                let props: Vec<(PropertyKey, grafeo_common::types::Value)> = ps
                    .iter()
                    .map(|(k, v)| (PropertyKey::new(KEYS[*k as usize % 3]), v.to_value()))
                    .collect();
                let id = store.create_node_with_props(&ls, props).as_u64();
                if !seen_ids.insert((true, id)) {
                    findings.push(("accessor=create_node_with_props | kind=duplicate-id".to_string(), format!("node id {id}")));
                    break;
                }
                node_ids.push(id);
                let mut mp = BTreeMap::new();
                for (k, v) in ps {
                    mp.insert(KEYS[*k as usize % 3].to_string(), v.clone());
                }
                model.nodes.insert(
                    id,
                    MNode {
                        labels: ls.iter().map(|s| s.to_string()).collect(),
                        props: mp,
                    },
                );
            }
            Op::DeleteNode(s) | Op::DeleteNodePlain(s) => {
                let Some(&id) = node_ids.get(*s) else { continue };
                let live = model.nodes.contains_key(&id);
                let plain = matches!(op, Op::DeleteNodePlain(_));
                if plain && !model.incident_edges(id).is_empty() {
                    continue; // never generated; skipped if minimisation produced it
                }
                if !plain && live {
                    store.delete_node_edges(NodeId::new(id));
                    for e in model.incident_edges(id) {
                        model.edges.remove(&e);
                    }
                }
                let r = store.delete_node(NodeId::new(id));
                if r != live {
                    findings.push((
                        "accessor=delete_node | kind=return-value".to_string(),
                        format!("step {step}: node {id} live={live} returned {r}"),
                    ));
                    break;
                }
                model.nodes.remove(&id);
                if !live {
                    *probes.entry("delete_of_deleted_node").or_insert(0) += 1;
                }
            }
            Op::CreateEdge(a, b, t) | Op::CreateEdgeProps(a, b, t, _) => {
                let (Some(&src), Some(&dst)) = (node_ids.get(*a), node_ids.get(*b)) else { continue };
                if !model.nodes.contains_key(&src) || !model.nodes.contains_key(&dst) {
                    continue; // edges between live nodes only
                }
                let ty = TYPES[*t as usize % 2];
                let id = if let Op::CreateEdgeProps(_, _, _, ps) = op {
                    let props: Vec<(PropertyKey, grafeo_common::types::Value)> = ps
                        .iter()
                        .map(|(k, v)| (PropertyKey::new(KEYS[*k as usize % 3]), v.to_value()))
                        .collect();
                    store
                        .create_edge_with_props(NodeId::new(src), NodeId::new(dst), ty, props)
                        .as_u64()
                } else {
                    store.create_edge(NodeId::new(src), NodeId::new(dst), ty).as_u64()
                };
                if !seen_ids.insert((false, id)) {
                    findings.push(("accessor=create_edge | kind=duplicate-id".to_string(), format!("edge id {id}")));
                    break;
                }
                edge_ids.push(id);
                let mut mp = BTreeMap::new();
                if let Op::CreateEdgeProps(_, _, _, ps) = op {
                    for (k, v) in ps {
                        mp.insert(KEYS[*k as usize % 3].to_string(), v.clone());
                    }
                }
                model.edges.insert(
                    id,
                    MEdge {
                        src,
                        dst,
                        ty: ty.to_string(),
                        props: mp,
                    },
                );
                if src == dst {
                    *probes.entry("self_loop").or_insert(0) += 1;
                }
                let od = model.out_edges(src).len();
                if od > max_out {
                    max_out = od;
                }
            }
            Op::DeleteEdge(s) => {
                let Some(&id) = edge_ids.get(*s) else { continue };
                let live = model.edges.contains_key(&id);
                let r = store.delete_edge(EdgeId::new(id));
                if r != live {
                    findings.push((
                        "accessor=delete_edge | kind=return-value".to_string(),
                        format!("step {step}: edge {id} live={live} returned {r}"),
                    ));
                    break;
                }
                model.edges.remove(&id);
            }
            Op::SetNodeProp(s, k, v) => {
                let Some(&id) = node_ids.get(*s) else { continue };
                if !model.nodes.contains_key(&id) {
                    continue; // writes are addressed to live entities only
                }
                let key = KEYS[*k as usize % 3];
                store.set_node_property(NodeId::new(id), key, v.to_value());
                model.nodes.get_mut(&id).unwrap().props.insert(key.to_string(), v.clone());
                if indexed.contains(&(*k % 3)) {
                    *probes.entry("set_on_indexed_key").or_insert(0) += 1;
                }
            }
            Op::RemoveNodeProp(s, k) => {
                let Some(&id) = node_ids.get(*s) else { continue };
                if !model.nodes.contains_key(&id) {
                    continue;
                }
                let key = KEYS[*k as usize % 3];
                let got = store.remove_node_property(NodeId::new(id), key).map(|v| SV::from_value(&v));
                let want = model.nodes.get_mut(&id).unwrap().props.remove(key);
                if got != want {
                    findings.push((
                        "accessor=remove_node_property | kind=return-value".to_string(),
                        format!("step {step}: node {id}.{key}: {got:?} vs {want:?}"),
                    ));
                    break;
                }
            }
            Op::SetEdgeProp(s, k, v) => {
                let Some(&id) = edge_ids.get(*s) else { continue };
                if !model.edges.contains_key(&id) {
                    continue;
                }
                let key = KEYS[*k as usize % 3];
                store.set_edge_property(EdgeId::new(id), key, v.to_value());
                model.edges.get_mut(&id).unwrap().props.insert(key.to_string(), v.clone());
            }
            Op::RemoveEdgeProp(s, k) => {
                let Some(&id) = edge_ids.get(*s) else { continue };
                if !model.edges.contains_key(&id) {
                    continue;
                }
                let key = KEYS[*k as usize % 3];
                let got = store.remove_edge_property(EdgeId::new(id), key).map(|v| SV::from_value(&v));
                let want = model.edges.get_mut(&id).unwrap().props.remove(key);
                if got != want {
                    findings.push((
                        "accessor=remove_edge_property | kind=return-value".to_string(),
                        format!("step {step}: edge {id}.{key}: {got:?} vs {want:?}"),
                    ));
                    break;
                }
            }
            Op::AddLabel(s, l) | Op::RemoveLabel(s, l) => {
                let Some(&id) = node_ids.get(*s) else { continue };
                let label = LABELS[*l as usize % 3];
                let add = matches!(op, Op::AddLabel(..));
                let r = if add {
                    store.add_label(NodeId::new(id), label)
                } else {
                    store.remove_label(NodeId::new(id), label)
                };
                let want = match model.nodes.get_mut(&id) {
                    None => false,
                    Some(n) => {
                        if add {
                            n.labels.insert(label.to_string())
                        } else {
                            n.labels.remove(label)
                        }
                    }
                };
                if r != want {
                    findings.push((
                        format!(
                            "accessor={} | kind=return-value",
                            if add { "add_label" } else { "remove_label" }
                        ),
                        format!("step {step}: node {id} {label}: returned {r}, expected {want}"),
                    ));
                    break;
                }
            }
            Op::CreateIndex(k) => {
                store.create_property_index(KEYS[*k as usize % 3]);
                indexed.insert(*k % 3);
                if !model.nodes.is_empty() {
                    *probes.entry("index_created_over_existing_data").or_insert(0) += 1;
                }
            }
            Op::DropIndex(k) => {
                let r = store.drop_property_index(KEYS[*k as usize % 3]);
                let want = indexed.remove(&(*k % 3));
                if r != want {
                    findings.push((
                        "accessor=drop_property_index | kind=return-value".to_string(),
                        format!("step {step}: returned {r}, expected {want}"),
                    ));
                    break;
                }
            }
            Op::ComputeStats => {
                store.compute_statistics();
                stats_fresh = true;
                mutated = false;
            }
            Op::EnsureStatsFresh => {
                // Not judged: the staleness flag is only raised by some mutators; the
                // statement speaks about an explicit refresh (compute_statistics).
                store.ensure_statistics_fresh();
                mutated = false;
            }
            Op::RebuildZoneMaps => {
                store.rebuild_zone_maps();
                mutated = false;
            }
        }
        if mutated {
            stats_fresh = false;
        }
        steps_done = step + 1;
        digest = digest.rotate_left(7) ^ fnv(op.kind().as_bytes()) ^ (model.nodes.len() as u64) << 8 ^ model.edges.len() as u64;
        if (step + 1) % cfg.check_every.max(1) == 0 || step + 1 == ops.len() {
            let ctx = Ctx {
                store: &store,
                model: &model,
                node_ids: &node_ids,
                edge_ids: &edge_ids,
                indexed: &indexed,
                cfg,
                stats_fresh,
                zone_rebuilt_clean: false,
            };
            for (sig, detail) in cross_check(&ctx, &mut rng, &mut probes) {
                if !findings.iter().any(|(s0, _): &(String, String)| *s0 == sig) {
                    findings.push((sig, format!("step {step} (after {}): {detail}", op.kind())));
                }
            }
            if findings.len() >= 6 {
                break;
            }
        }
    }
    if max_out >= 64 {
        *probes.entry("adjacency_list_crossed_64").or_insert(0) += 1;
    }
    if max_out >= 128 {
        *probes.entry("adjacency_list_crossed_128").or_insert(0) += 1;
    }
    if max_out >= 320 {
        *probes.entry("adjacency_list_crossed_320").or_insert(0) += 1;
    }
    let nontrivial = model.nodes.len() + model.edges.len() > 0 && steps_done >= 3;
    ExecResult {
        findings: findings
            .into_iter()
            .map(|(s, d)| (format!("C14 | {s}"), d))
            .collect(),
        probes,
        steps_done,
        nontrivial,
        digest,
    }
}

pub fn generate(rng: &mut Prng, thorough: bool) -> (Config, Vec<Op>) {
    let hub_mode = rng.chance(1, if thorough { 6 } else { 25 });
    let backward = !rng.chance(1, 4);
    let exotic = rng.chance(1, 3);
    let len = if hub_mode {
        rng.range(150, if thorough { 700 } else { 400 }) as usize
    } else {
        rng.range(3, if thorough { 80 } else { 40 }) as usize
    };
    // swarm weights, some kinds switched off entirely per run
    let mut w: Vec<u32> = (0..18).map(|_| rng.range(1, 6) as u32).collect();
    for x in w.iter_mut() {
        if rng.chance(1, 5) {
            *x = 0;
        }
    }
    w[0] = w[0].max(2); // always some nodes
    if hub_mode {
        w[4] = 40; // create_edge dominates
        w[5] = 4;
        w[6] = 8;
        w[2] = w[2].min(1);
        w[3] = 0;
    }
    let mut ops = Vec::with_capacity(len);
    let mut n_nodes = 0usize;
    let mut n_edges = 0usize;
    let mut uniq = 0u64;
    let max_nodes = if hub_mode { 4 } else { rng.range(2, 8) as usize };
    while ops.len() < len {
        uniq += 1;
        let k = rng.weighted(&w);
        let mut props = |rng: &mut Prng, uniq: u64| -> Vec<(u8, SV)> {
            (0..rng.range(0, 3))
                .map(|i| (rng.below(3) as u8, gen_value(rng, uniq * 4 + i, exotic)))
                .collect()
        };
        let op = match k {
            0 | 1 => {
                if n_nodes >= max_nodes && !rng.chance(1, 6) {
                    continue;
                }
                n_nodes += 1;
                let ls: Vec<u8> = (0..rng.range(0, 3)).map(|_| rng.below(3) as u8).collect();
                if k == 0 {
                    Op::CreateNode(ls)
                } else {
                    Op::CreateNodeProps(ls, props(rng, uniq))
                }
            }
            2 if n_nodes > 0 => Op::DeleteNode(rng.usize(n_nodes)),
            3 if n_nodes > 0 => Op::DeleteNodePlain(rng.usize(n_nodes)),
            4 if n_nodes > 0 => {
                n_edges += 1;
                let a = if hub_mode && rng.chance(4, 5) { 0 } else { rng.usize(n_nodes) };
                Op::CreateEdge(a, rng.usize(n_nodes), rng.below(2) as u8)
            }
            5 if n_nodes > 0 => {
                n_edges += 1;
                Op::CreateEdgeProps(rng.usize(n_nodes), rng.usize(n_nodes), rng.below(2) as u8, props(rng, uniq))
            }
            6 if n_edges > 0 => Op::DeleteEdge(rng.usize(n_edges)),
            7 | 8 if n_nodes > 0 => Op::SetNodeProp(rng.usize(n_nodes), rng.below(3) as u8, gen_value(rng, uniq * 4, exotic)),
            9 if n_nodes > 0 => Op::RemoveNodeProp(rng.usize(n_nodes), rng.below(3) as u8),
            10 if n_edges > 0 => Op::SetEdgeProp(rng.usize(n_edges), rng.below(3) as u8, gen_value(rng, uniq * 4, exotic)),
            11 if n_edges > 0 => Op::RemoveEdgeProp(rng.usize(n_edges), rng.below(3) as u8),
            12 if n_nodes > 0 => Op::AddLabel(rng.usize(n_nodes), rng.below(3) as u8),
            13 if n_nodes > 0 => Op::RemoveLabel(rng.usize(n_nodes), rng.below(3) as u8),
            14 => Op::CreateIndex(rng.below(3) as u8),
            15 => Op::DropIndex(rng.below(3) as u8),
            16 => {
                if rng.chance(1, 2) {
                    Op::ComputeStats
                } else {
                    Op::EnsureStatsFresh
                }
            }
            17 => Op::RebuildZoneMaps,
            _ => continue,
        };
        ops.push(op);
    }
    (
        Config {
            backward,
            check_every: if hub_mode { 16 } else { 1 },
        },
        ops,
    )
}

/// DeleteNodePlain is only meaningful for nodes without incident edges; the executor skips
/// it otherwise, so generation does not need the model.
fn run_guarded(cfg: &Config, ops: &[Op], check_seed: u64) -> ExecResult {
    match guarded(|| exec(cfg, ops, check_seed)) {
        Ok(r) => r,
        Err(msg) => ExecResult {
            findings: vec![(format!("C14 | panic | {}", panic_class(&msg)), msg)],
            probes: BTreeMap::new(),
            steps_done: ops.len(),
            nontrivial: true,
            digest: 0,
        },
    }
}

pub fn replay_doc(cfg: &Config, ops: &[Op], check_seed: u64) -> serde_json::Value {
    json!({"engine": "STORE", "config": cfg, "check_seed": check_seed, "ops": ops, "schedule": null, "faults": []})
}

pub fn run_one(seed: u64, thorough: bool) -> RunOut {
    let mut rng = Prng::new(seed);
    let (cfg, ops) = generate(&mut rng, thorough);
    let check_seed = rng.next_u64();
    let res = run_guarded(&cfg, &ops, check_seed);
    let mut out = RunOut::default();
    out.hash = fnv(&serde_json::to_vec(&ops).unwrap()) ^ u64::from(cfg.backward);
    out.shape = fnv(ops.iter().map(|o| o.kind()).collect::<Vec<_>>().join(",").as_bytes());
    out.nontrivial = res.nontrivial;
    out.steps = res.steps_done as u64;
    out.probes = res.probes;
    out.digest = res.digest;
    if ops.len() <= 24 {
        out.sample = Some(json!({"seed": seed, "config": cfg, "ops": ops}));
    }
    for (sig, detail) in res.findings {
        out.findings.push(Finding {
            property: "C14".into(),
            signature: sig,
            detail,
            replay: replay_doc(&cfg, &ops, check_seed),
        });
    }
    out
}

pub fn minimise(f: &Finding) -> Finding {
    let cfg: Config = serde_json::from_value(f.replay["config"].clone()).unwrap();
    let mut cfg1 = cfg.clone();
    cfg1.check_every = 1;
    let ops: Vec<Op> = serde_json::from_value(f.replay["ops"].clone()).unwrap();
    let cs = f.replay["check_seed"].as_u64().unwrap_or(0);
    let sig = f.signature.clone();
    // slot-indexed ops stay meaningful when creations are kept; ddmin may drop a creation
    // and shift slots, which is fine: the criterion is the same signature.
    let strip = |s: &str| s.to_string();
    let want = strip(&sig);
    let mut fails = |cand: &[Op]| {
        run_guarded(&cfg1, cand, cs)
            .findings
            .iter()
            .any(|(s, _)| strip(s) == want)
    };
    let small = if fails(&ops) {
        crate::fw::ddmin(&ops, &mut fails, 600)
    } else {
        ops.clone()
    };
    let res = run_guarded(&cfg1, &small, cs);
    let (sig2, detail) = res
        .findings
        .iter()
        .find(|(s, _)| strip(s) == want)
        .cloned()
        .unwrap_or((sig.clone(), f.detail.clone()));
    let mut doc = replay_doc(&cfg1, &small, cs);
    doc["original_len"] = json!(ops.len());
    Finding {
        property: f.property.clone(),
        signature: if strip(&sig2) == want { sig } else { sig2 },
        detail,
        replay: doc,
    }
}

pub fn replay(doc: &serde_json::Value) -> Vec<(String, String)> {
    let cfg: Config = serde_json::from_value(doc["config"].clone()).unwrap();
    let ops: Vec<Op> = serde_json::from_value(doc["ops"].clone()).unwrap();
    let cs = doc["check_seed"].as_u64().unwrap_or(0);
    for (i, o) in ops.iter().enumerate() {
        println!("  {i}: {o:?}");
    }
    run_guarded(&cfg, &ops, cs).findings
}
