//! Check registry: one entry per claimed property (plus sub-checks a property is built from).

use serde_json::Value;

use crate::fw::{Batch, CheckSpec, Finding, Tier, drive};
use crate::{Args, eng_codec, eng_disk, eng_hist, eng_par, eng_rdf, eng_sched, eng_snap, eng_spill, eng_store, eng_twin, eng_txm, eng_vec, eng_vecmt};

const REAL_TXM: &[&str] = &["grafeo_engine::transaction::TransactionManager (all of manager.rs)"];

pub fn run_check(id: &str, args: &Args) -> i32 {
    match id {
        "C03" => c03(args),
        "C04" => c04(args),
        "C14" => c14(args),
        "C20" => c20(args),
        "C13" => c13(args),
        "C17" => c17(args),
        "C10" => c10(args),
        "C18" => c18(args),
        "C07" => c07(args),
        "C15" => c15(args),
        "C01" => c_hist(args, "C01"),
        "C02" => c_hist(args, "C02"),
        "C05" => c_disk(args, "C05"),
        "C06" => c_disk(args, "C06"),
        _ => {
            eprintln!("harness error: no check registered for {id}");
            2
        }
    }
}

fn runs(args: &Args, quick: u64, thorough: u64) -> u64 {
    args.runs.unwrap_or(match args.tier {
        Tier::Quick => quick,
        Tier::Thorough => thorough,
    })
}

fn c03(args: &Args) -> i32 {
    let thorough = args.tier == Tier::Thorough;
    let spec = CheckSpec {
        property: "C03",
        check_name: "C03",
        level: "exploration",
        engine: "TXM+HIST+SCHED",
        rule: "three layers, selected by run index (198 of 200 / 1 of 200 / 1 of 200): (1) manager level: histories of begin/write/commit/abort/gc drawn from the run seed (<=6 live transactions, <=5 entities, 4..36 (quick) or 4..60 (thorough) operations); a case is non-trivial when at least one commit was issued by a transaction that had an overlapping committed writer of one of its entities; (2) session level: two to four sessions whose open transactions modify the same node or edge through queries, judged by the first-committer-wins rule of the reference model; (3) thread level: 2-3 simulated threads each running begin/write/commit (plus gc) under shuttle with every lock operation a scheduling point; distinct = distinct operation lists / scenarios".into(),
        real: vec!["grafeo_engine::transaction::TransactionManager (all of manager.rs)", "Session/GrafeoDB query path (session layer)"],
        stub: vec!["parking_lot blocking paths and OS threads (thread layer only)"],
        assumptions: vec![
            "manager layer: the simulator issues one manager call at a time".into(),
            "the specification clock is the count of successful commits; it is independent of the manager's epochs and of gc".into(),
        ],
        unchecked: vec![],
    };
    let batch = Batch {
        spec,
        tier: args.tier,
        seed: args.seed,
        runs: runs(args, 300_000, 2_000_000),
        workers: args.workers,
    };
    drive(
        batch,
        &|seed, i| {
            // three layers, one property: manager-level histories (most runs), session-level
            // histories with overlapping writers of one entity, and concurrent commits
            // under the thread scheduler
            match i % 200 {
                198 => eng_hist::run_one(seed, "C03", thorough),
                199 => eng_sched::run_one(seed, eng_sched::Family::Txm, "C03", if thorough { 60 } else { 20 }),
                _ => eng_txm::run_one(seed, "C03", thorough),
            }
        },
        Some(&|f: &crate::fw::Finding| match f.replay["engine"].as_str() {
            Some("HIST") => eng_hist::minimise(f),
            Some("SCHED") => eng_sched::minimise(f),
            _ => eng_txm::minimise(f),
        }),
        &mut |_| {},
    )
}

fn c04(args: &Args) -> i32 {
    let thorough = args.tier == Tier::Thorough;
    let spec = CheckSpec {
        property: "C04",
        check_name: "C04",
        level: "exploration",
        engine: "TXM",
        rule: "histories of begin(Serializable or mixed)/read/write/commit/abort/gc drawn from the run seed, one third of them starting from a seeded write-skew, lost-update or read-only-anomaly shape; non-trivial when at least one commit was issued by a transaction with an overlapping committed writer of something it read or wrote; distinct = distinct operation lists".into(),
        real: REAL_TXM.to_vec(),
        stub: vec![],
        assumptions: vec![
            "reads and writes are the ones registered through record_read/record_write (what the statement quantifies over); whether the query layer registers them is judged in C01/C03 session layers".into(),
        ],
        unchecked: vec![
            "a read-only Serializable transaction whose read was overwritten by an overlapping committer: the statement both asks for refusal and forbids refusing read-only transactions; either outcome is accepted".into(),
            "the rw-refusal rule is only demanded when every transaction of the history is Serializable (the statement's premise); in mixed histories only 'never refused without overlap' and the write-write rule are demanded".into(),
        ],
    };
    let batch = Batch {
        spec,
        tier: args.tier,
        seed: args.seed,
        runs: runs(args, 300_000, 6_000_000),
        workers: args.workers,
    };
    drive(
        batch,
        &|seed, _i| eng_txm::run_one(seed, "C04", thorough),
        Some(&eng_txm::minimise),
        &mut |_| {},
    )
}

fn c14(args: &Args) -> i32 {
    let thorough = args.tier == Tier::Thorough;
    let spec = CheckSpec {
        property: "C14",
        check_name: "C14",
        level: "exploration",
        engine: "STORE",
        rule: "histories of every LpgStore mutator (create/delete node and edge incl. self-loops and parallel edges, set/remove property of every value class, add/remove label, create/drop index, statistics refresh, zone-map rebuild) drawn from the run seed; after every step every accessor is compared with the reference graph (enumeration, counts, point lookups, single and batch property getters for nodes and edges, label index and label iterator, typed edge iterator, adjacency in both directions, degrees, indexed/scanned/conjunctive/range lookups, zone-map pruning, name dictionaries, statistics) with per-run operation-kind subsets, with and without backward adjacency; hub runs push one adjacency list past 64/128/320 entries; a case is non-trivial when it executed >=3 steps and left a non-empty graph; distinct = distinct operation lists".into(),
        real: vec!["grafeo_core::graph::lpg::LpgStore", "PropertyStorage", "ChunkedAdjacency", "zone maps", "grafeo_common::mvcc::VersionChain", "statistics"],
        stub: vec![],
        assumptions: vec![
            "mutations are addressed to live entities (writes to deleted ids are not generated, except add/remove label and delete, whose boolean result is checked)".into(),
            "a node is deleted the way the store documents for nodes with edges: delete_node_edges then delete_node".into(),
        ],
        unchecked: vec!["ChunkedAdjacency::compact/freeze_all are not reachable through LpgStore; they are exercised by the adjacency sub-simulation of C15".into()],
    };
    let batch = Batch {
        spec,
        tier: args.tier,
        seed: args.seed,
        runs: runs(args, 100_000, 2_000_000),
        workers: args.workers,
    };
    drive(
        batch,
        &|seed, _i| eng_store::run_one(seed, thorough),
        Some(&eng_store::minimise),
        &mut |_| {},
    )
}

fn c_disk(args: &Args, prop: &'static str) -> i32 {
    let thorough = args.tier == Tier::Thorough;
    let c06 = prop == "C06";
    let spec = CheckSpec {
        property: prop,
        check_name: prop,
        level: "fault_enumeration",
        engine: "DISK",
        rule: if c06 {
            "operation sequences over a persistent GrafeoDB (every mutating API call with every value class, query mutations, checkpoint, rotate, sync, flush, clock jumps, close/reopen) under a per-run durability mode, log-size limit and BufWriter capacity; crash points are indices into the recorded disk-event log (so also inside close/checkpoint/rotation); per crash point the surviving image keeps every durable byte and a PRNG-chosen amount of the un-synced tail, optionally torn (zeros/garbage), un-synced new files present or absent, the newest rename durable or not; plus single-bit flips of log files; continuation after every fault. Non-trivial = >=2 steps and at least one restart or mutation; distinct = distinct (configuration, operation list)".into()
        } else {
            "operation sequences over a persistent GrafeoDB (every mutating API call with every value class, query mutations, checkpoint, rotate, sync, flush, clock jumps) with 1..n clean close/reopen cycles under a per-run durability mode, log-size limit and BufWriter capacity; no faults. Non-trivial = >=2 steps and at least one mutation or reopen; distinct = distinct (configuration, operation list)".into()
        },
        real: vec!["grafeo_engine::GrafeoDB (open/close/recovery/mutating API)", "grafeo_adapters::storage::wal::{WalManager, WalRecovery, WalRecord}", "LpgStore", "bincode/crc32 framing"],
        stub: vec!["file system under wal/log.rs: pass-through to tmpfs with an event tap (std::fs::{File,OpenOptions,rename,remove_file})", "clock under wal/log.rs (simulated Instant/SystemTime)", "AdaptiveFlusher thread: not run; modelled as generated wal.sync() calls", "AsyncWalManager: not run (not reachable from GrafeoDB)"],
        assumptions: vec![
            "a file's directory entry is durable once the file has been fsynced (no separate directory fsync demanded)".into(),
            "rename is atomic; its durability is sampled both ways".into(),
            "crash states are op-granular prefixes: the recovered state must equal the model after p operations with floor <= p <= issued, where floor is computed from the bytes below each file's last fsync".into(),
            "I/O errors (EIO/ENOSPC/short writes) are not injected: no property states what must happen then".into(),
        ],
        unchecked: vec!["bit flips are applied to wal_*.log files only, not to checkpoint.meta".into()],
    };
    let batch = Batch {
        spec,
        tier: args.tier,
        seed: args.seed,
        runs: runs(args, if c06 { 20_000 } else { 40_000 }, if c06 { 400_000 } else { 1_000_000 }),
        workers: args.workers,
    };
    drive(
        batch,
        &|seed, i| eng_disk::run_one(seed, i, prop, thorough),
        Some(&eng_disk::minimise),
        &mut |_| {},
    )
}

fn c20(args: &Args) -> i32 {
    let thorough = args.tier == Tier::Thorough;
    let n_sched = if thorough { 120 } else { 40 };
    let spec = CheckSpec {
        property: "C20",
        check_name: "C20",
        level: "exploration",
        engine: "SCHED",
        rule: format!("scenarios of 2-3 simulated threads x 1-3 operations on shared entities (LpgStore node/edge/label/property/index/statistics operations; RdfStore insert/remove/find of the same triple; TransactionManager begin/write/commit/gc; BufferManager grants against a budget that cannot fit them all; Catalog get_or_create / create_index / drop_index; QueryCache put/get/invalidate/clear at capacity 2; WalManager log/sync/rotate on one directory with rotation every 1-3 records; one GrafeoDB with one Session per thread: direct-API and session node/edge creation, auto-commit INSERT and SET statements, whole transactions begin+INSERT(+INSERT)+commit or +rollback, count queries), each explored under {n_sched} schedules (random, PCT depth 2 and 3) with every parking_lot acquire and release a scheduling point; non-trivial = at least two threads mutate; distinct = distinct scenarios (schedules are counted separately as distinct_interleavings)"),
        real: vec!["LpgStore", "RdfStore", "TransactionManager", "ChunkedAdjacency", "PropertyStorage", "BufferManager/MemoryGrant", "Catalog", "QueryCache", "WalManager (real files on tmpfs through the file seam)", "GrafeoDB + Session query path (db family)", "parking_lot lock state (try paths)"],
        stub: vec!["parking_lot blocking paths (replaced by the simulator's wait queue)", "OS threads (shuttle coroutines on one OS thread)"],
        assumptions: vec![
            "interleavings are explored at the granularity of lock acquire/release (the quantifier's 'critical sections inside each operation'); plain memory accesses between two lock operations are atomic in the simulation".into(),
            "the sequential reference is the same code run single-threaded over every interleaving of whole operations".into(),
            "mid-flight read-only observations are not required to be linearizable (the statement lists post-quiescence agreement)".into(),
        ],
        unchecked: vec!["lock-free internals of dashmap/crossbeam are not explored at their own atomic granularity".into()],
    };
    let batch = Batch { spec, tier: args.tier, seed: args.seed, runs: runs(args, 2_000, 15_000), workers: args.workers };
    drive(
        batch,
        &|seed, i| {
            let fam = match i % 11 {
                0 => eng_sched::Family::LpgCore,
                1 | 2 => eng_sched::Family::Lpg,
                3 => eng_sched::Family::Rdf,
                4 => eng_sched::Family::Txm,
                5 | 6 => eng_sched::Family::Buffer,
                7 => eng_sched::Family::Catalog,
                8 => eng_sched::Family::Cache,
                9 => eng_sched::Family::Db,
                _ => eng_sched::Family::Wal,
            };
            // development aid (timing one family); never set by the registered commands
            let fam = match std::env::var("VERIF_DEV_FAMILY").as_deref() {
                Ok("lpgcore") => eng_sched::Family::LpgCore,
                Ok("lpg") => eng_sched::Family::Lpg,
                Ok("rdf") => eng_sched::Family::Rdf,
                Ok("txm") => eng_sched::Family::Txm,
                Ok("buffer") => eng_sched::Family::Buffer,
                Ok("catalog") => eng_sched::Family::Catalog,
                Ok("cache") => eng_sched::Family::Cache,
                Ok("wal") => eng_sched::Family::Wal,
                Ok("db") => eng_sched::Family::Db,
                _ => fam,
            };
            // a db-family execution builds a database and runs whole statements: fewer schedules
            let n = if fam == eng_sched::Family::Db { n_sched / 4 } else { n_sched };
            eng_sched::run_one(seed, fam, "C20", n)
        },
        Some(&eng_sched::minimise),
        &mut |_| {},
    )
}

fn c_hist(args: &Args, prop: &'static str) -> i32 {
    let thorough = args.tier == Tier::Thorough;
    let spec = CheckSpec {
        property: prop,
        check_name: prop,
        level: "exploration",
        engine: "HIST",
        rule: if prop == "C01" {
            "histories over 2-4 sessions of one in-memory GrafeoDB (begin/commit/rollback/drop-session; node/edge/property/label/triple mutations through the session API, GQL, SPARQL and the GrafeoDB direct API; every kind of read: label scan, unlabelled scan, expand, count, point lookups, batch lookup, neighbour listing, SPARQL pattern, GrafeoDB counts/iteration) in a total order chosen by the run seed; per-run subsets of mutation kinds; reads are placed after mutations, by every session after every commit/rollback, and repeated inside transactions. Non-trivial = at least one observation was made while another session had a transaction open or by a session inside a transaction; distinct = distinct operation lists".into()
        } else {
            "one transaction at a time under the microscope (1-4 mutations, 70% of one kind) ended by commit, rollback or dropping the session, with other sessions interleaving committed (auto-commit) work; after each end a fresh session dumps the database through every access path (scans per label, unlabelled scan, expand, point lookups of every id ever handed out, neighbour listing, counts, all triples) and the dump is compared with the specification's committed state; distinct = distinct operation lists".into()
        },
        real: vec!["grafeo_engine::{GrafeoDB, Session}", "TransactionManager", "LpgStore", "RdfStore", "GQL/SPARQL parser, translator, binder, optimizer, planner, operators"],
        stub: vec!["none (in-memory database); the pinned twin (/verif/pinned) is an unmodified copy of the tree at the pinned commit, used only to classify deviations as already-known"],
        assumptions: vec![
            "interleaving granularity = whole session calls (sessions never block); thread-level interleavings inside a call are C20's".into(),
            "two open transactions never write the same entity in these histories (that is C03's question); the generator locks written entities until the transaction ends".into(),
            "a failed commit cannot be produced through the public API of the pinned tree (nothing registers write sets); that end is therefore not generated".into(),
        ],
        unchecked: vec!["Cypher/Gremlin/GraphQL front ends are not used here (same planner and operators underneath)".into(), "MERGE (returns no id to map)".into()],
    };
    let batch = Batch { spec, tier: args.tier, seed: args.seed, runs: runs(args, 20_000, 1_000_000), workers: args.workers };
    drive(batch, &|seed, _i| eng_hist::run_one(seed, prop, thorough), Some(&eng_hist::minimise), &mut |_| {})
}

fn c13(args: &Args) -> i32 {
    let thorough = args.tier == Tier::Thorough;
    let spec = CheckSpec {
        property: "C13",
        check_name: "C13",
        level: "exploration",
        engine: "RDF+SCHED",
        rule: "histories of insert/remove/clear (duplicates, removal of absent triples, IRIs, blank nodes, plain/language-tagged/typed/empty literals), of the transaction buffers (insert_in_tx/remove_in_tx/commit_tx/rollback_tx with two interleaved transactions) and, in a quarter of the runs, of SPARQL INSERT DATA/DELETE DATA through a GrafeoDB; after every step all 8 bound/unbound pattern shapes over every term of the universe, the per-position lookups, len/contains/stats/subjects/objects, every open transaction's pending view and (SPARQL runs) a fixed template family are compared with a BTreeSet model; 1 run in 50 is a thread-scheduled scenario (insert/remove/find of the same triple from 2-3 simulated threads). Non-trivial = >=2 steps; distinct = distinct (configuration, operation list)".into(),
        real: vec!["grafeo_core::graph::rdf::{RdfStore, Term, Triple, TriplePattern}", "SPARQL parser/translator/RDF planner/operators (template family only)"],
        stub: vec!["parking_lot blocking paths and OS threads in the thread-scheduled runs"],
        assumptions: vec!["SPARQL result cells are compared by lexical form (the engine returns lexical forms)".into()],
        unchecked: vec![
            "SPARQL DELETE {..} INSERT {..} WHERE {..} (modify) and DELETE WHERE: the update templates are INSERT DATA / DELETE DATA only (seeded change C13f is not caught)".into(),
            "'all queries from the SPARQL core grammar': a pure function of (triple set, query text) - decided here only for the fixed template family (single pattern in each shape, join on a shared variable, FILTER =, OPTIONAL, UNION, DISTINCT, COUNT, INSERT DATA/DELETE DATA)".into(),
            "ring index (cargo feature off)".into(),
            "blank nodes in SPARQL updates (fresh labels per request)".into(),
        ],
    };
    let batch = Batch { spec, tier: args.tier, seed: args.seed, runs: runs(args, 20_000, 300_000), workers: args.workers };
    drive(
        batch,
        &|seed, i| {
            if i % 50 == 49 {
                eng_sched::run_one(seed, eng_sched::Family::Rdf, "C13", if thorough { 60 } else { 30 })
            } else {
                eng_rdf::run_one(seed, thorough)
            }
        },
        Some(&|f: &crate::fw::Finding| match f.replay["engine"].as_str() {
            Some("SCHED") => eng_sched::minimise(f),
            _ => eng_rdf::minimise(f),
        }),
        &mut |_| {},
    )
}

fn c15(args: &Args) -> i32 {
    let thorough = args.tier == Tier::Thorough;
    let spec = CheckSpec {
        property: "C15",
        check_name: "C15",
        level: "exploration",
        engine: "CODEC",
        rule: "two kinds of histories drawn from the run seed: (a) PropertyStorage: set/remove/remove_all of values chosen per run to reach one codec (all-equal ints, increasing ints, i64 extremes, repeated strings, booleans, mixed) interleaved with force_compress_all, compress_all and enable_compression(None) (which decompresses), every get/get_all/get_batch compared with a map after every step; (b) ChunkedAdjacency with chunk capacity 1/2/4/64: add_edge/mark_deleted/compact/compact_if_needed/freeze_all/clear, some runs pushing one list past 64/128/320 entries, every list compared with a multiset model. Non-trivial = a column was compressed or >=4 steps; distinct = distinct (configuration, operation list)".into(),
        real: vec!["grafeo_core::graph::lpg::PropertyStorage / PropertyColumn (compress_as_integers/strings/booleans, decompress_all)", "TypeSpecificCompressor, DictionaryBuilder, zig-zag/delta/bit-pack/RLE codecs as called from there", "grafeo_core::index::ChunkedAdjacency (AdjacencyChunk, CompressedAdjacencyChunk, delta buffer, tombstones)"],
        stub: vec![],
        assumptions: vec!["CompressionMode is not exported by grafeo-core: only force_compress_all (compresses regardless of mode) and enable_compression(key, Default::default() = None) are reachable from outside the crate; Auto/Eager thresholds are therefore not exercised".into()],
        unchecked: vec![
            "the first sentence of the statement (round-trip, random access and byte-serialisation laws of each codec over all input sequences) is a pure function of the input: not a simulation target".into(),
            "succinct structures (cargo feature off)".into(),
        ],
    };
    let batch = Batch { spec, tier: args.tier, seed: args.seed, runs: runs(args, 40_000, 2_000_000), workers: args.workers };
    drive(batch, &|seed, _i| eng_codec::run_one(seed, thorough), Some(&eng_codec::minimise), &mut |_| {})
}

fn c07(args: &Args) -> i32 {
    let thorough = args.tier == Tier::Thorough;
    let spec = CheckSpec {
        property: "C07",
        check_name: "C07",
        level: "exploration",
        engine: "SNAP",
        rule: "a source database is built by a generated mutation history (every direct-API mutation with every value class incl. NaN, nested lists/maps, empty strings, zero-length vectors; deletions leaving sparse ids; in a fifth of the runs committed session transactions), then copied by one of export->import, save->open, to_memory, save->open_in_memory; the copy's dump (iteration + point lookups of every id ever handed out + fixed queries) must equal the reference graph, the source must be unchanged, two exports must be byte-equal; then the exported blob is damaged (every truncation length in a third of the runs, up to 24/60 random single-bit flips) and import must neither panic nor return a database that disagrees with an independent decode of the same bytes. Non-trivial = non-empty graph; distinct = distinct (route, faults, operation list)".into(),
        real: vec!["GrafeoDB::{export_snapshot, import_snapshot, save, open, to_memory, open_in_memory}", "bincode/serde encoding of Value", "WAL (save/open routes, on tmpfs)"],
        stub: vec![],
        assumptions: vec!["floats compared bitwise".into(), "a damaged blob that still decodes as a version-1 snapshot is a valid snapshot (import may accept it, but must then be complete: as many distinct nodes/edges as the bytes decode to)".into()],
        unchecked: vec!["wasm binding wrapper".into(), "plain delete of nodes that still have edges (dangling edges are the store's documented behaviour)".into()],
    };
    let batch = Batch { spec, tier: args.tier, seed: args.seed, runs: runs(args, 6_000, 400_000), workers: args.workers };
    drive(batch, &|seed, i| eng_snap::run_one(seed, i, thorough), Some(&eng_snap::minimise), &mut |_| {})
}

fn c18(args: &Args) -> i32 {
    let thorough = args.tier == Tier::Thorough;
    let spec = CheckSpec {
        property: "C18",
        check_name: "C18",
        level: "exploration",
        engine: "VEC+VECMT",
        rule: "(VEC, 19 runs in 20) histories of insert / re-insert of the same id / remove / search / search_with_ef / batch_search over HnswIndex::with_seed with per-run dimension (1,2,3,7,8,9,33), metric (4), m, ef_construction, ef (1..128), magnitude scale (1e-3..1e6), zero vectors and duplicates; after every search: at most k results, distinct ids, every id currently present in the id->vector model, distance equal to the scalar definition computed in f64 (relative tolerance 1e-3), non-decreasing order, batch = one-by-one, non-empty on a non-empty index. Non-trivial = at least one search and >=3 steps; distinct = distinct (configuration, operation list). (VECMT, 1 run in 20) 2-3 simulated threads insert into, remove from and search one index at the same time under shuttle (random, PCT 2/3; 12 schedules per scenario quick, 40 thorough) with every lock operation inside hnsw.rs a scheduling point; every id is inserted and removed at most once, so a search may only return ids whose presence window can overlap the call, with true distances, sorted, distinct, at most k; after the threads finish len/contains/get/iter must describe exactly inserted-minus-removed, a wide search returns only such ids and is non-empty on a non-empty index; a deadlock, a panic or no progress within the step bound is a violation".into(),
        real: vec!["grafeo_core::index::vector::{HnswIndex, distance kernels as called by it}"],
        stub: vec!["std HashMap/HashSet inside hnsw.rs replaced by fixed-hasher containers (cfg(grafeo_verif)) so that entry-point selection after a removal replays exactly", "parking_lot blocking paths and OS threads (VECMT runs only)"],
        assumptions: vec!["cosine distance to/from a zero vector is undefined and not judged".into()],
        unchecked: vec![
            "'returns k whenever at least k are reachable': reachability inside the HNSW graph cannot be computed from outside; the ratio returned/min(k,len) is recorded as a probe, only 'non-empty' is asserted".into(),
            "SIMD kernels = scalar definitions, quantiser error bounds, exact brute_force_knn optimality: pure functions of their inputs (not simulation targets)".into(),
            "GrafeoDB::vector_search after graph mutations (the index is built once and not maintained)".into(),
        ],
    };
    let batch = Batch { spec, tier: args.tier, seed: args.seed, runs: runs(args, 20_000, 1_000_000), workers: args.workers };
    let n_sched = if thorough { 40 } else { 12 };
    drive(
        batch,
        &|seed, i| if i % 20 == 19 { eng_vecmt::run_one(seed, "C18", n_sched) } else { eng_vec::run_one(seed, thorough) },
        Some(&|f: &Finding| if f.replay["engine"] == "VECMT" { eng_vecmt::minimise(f) } else { eng_vec::minimise(f) }),
        &mut |_| {},
    )
}

fn c10(args: &Args) -> i32 {
    let thorough = args.tier == Tier::Thorough;
    let spec = CheckSpec {
        property: "C10",
        check_name: "C10",
        level: "exploration",
        engine: "TWIN",
        rule: "one history of data changes (create/delete node and edge, set/remove property incl. strings that differ only in inner whitespace), create/drop property index and queries from a fixed template family (equality, comparison, range, conjunction, disjunction, int-vs-float constant, string literal with whitespace, edge-property predicate, 2- and 3-hop chains, count; a per-run pool of query texts is re-executed between changes, also with different spacing between tokens, from two sessions that share the plan cache) is applied in lock-step to database A (indexes as generated, plan cache on, factorized execution on) and twin B (no index ever, cache bypassed via execute_with_params, factorized execution off); after every query row multisets must be equal and equal to brute force over the model for the unambiguous templates. Non-trivial = >=2 queries over a non-empty graph; distinct = distinct operation lists".into(),
        real: vec!["GrafeoDB/Session query path: QueryCache, gql translator, binder, optimizer, planner (index / range / zone-map / scan paths, factorized expand), executor", "LpgStore property indexes and zone maps"],
        stub: vec![],
        assumptions: vec!["data changes go through the GrafeoDB direct API (store epoch), so that visibility questions (C01) do not enter".into()],
        unchecked: vec![
            "'for all queries and graphs' as a universal statement about the planner: a pure function of (graph, query, configuration); only the history-dependent half (cache warm after changes, index created/dropped between executions, shared cache across sessions) is decided here, through the fixed template family".into(),
            "plan-cache eviction (capacity 1000 is never reached by these histories)".into(),
        ],
    };
    let batch = Batch { spec, tier: args.tier, seed: args.seed, runs: runs(args, 80_000, 2_000_000), workers: args.workers };
    drive(batch, &|seed, _i| eng_twin::run_one(seed, thorough), Some(&eng_twin::minimise), &mut |_| {})
}

fn c17(args: &Args) -> i32 {
    let thorough = args.tier == Tier::Thorough;
    let n_sched = if thorough { 24 } else { 8 };
    let spec = CheckSpec {
        property: "C17",
        check_name: "C17",
        level: "exploration",
        engine: "PAR+SPILL",
        rule: format!("(PAR, 1 run in 10) one generated table (0, 1, 1023, 1024, 1025, 2048, 3000 or 4097 rows of two integer columns with per-run value domains, duplicates and nulls) and one operator chain (passthrough, filter, sort, distinct, filter+distinct, global aggregate count/sum/min/max, grouped aggregate) run by ParallelPipeline with 1-4 workers, chunk size 1/7/64/1000/2048 and 1024-row morsels, under {n_sched} schedules (random, PCT 2/3): the pipeline's own worker threads run as simulated threads, so which worker gets or steals which morsel and when partial results are appended is the scheduler's choice. Output (partials of breaker chains merged the way the breaker defines) must equal the brute-force sequential evaluation; rows_processed and morsel count must match. Non-trivial = more than one morsel and more than one worker. (SPILL, 9 runs in 10) one generated table of three columns (integers with nulls, group key, strings; 0-900 rows, 0-3000 in the thorough tier), one spilling operator (SpillableSortPushOperator with 1-2 keys, directions and null orders; SpillableAggregatePushOperator grouped by one or two columns with count/sum/min/max), one memory budget (spill threshold from 1 row to never), one cap on the spill files' write buffer (1 byte to 64 KiB) and one fault plan for the spill files (none; the n-th file operation fails hard, once or from then on, as a generic error or as disk full; the n-th read/write returns EINTR once). The answer must equal the non-spilling operator's (sort: same key sequence and same multiset of rows; aggregate: same groups, also compared with a brute-force model); a hard fault may turn into an error but never into a panic or a different answer; EINTR must be invisible; afterwards the spill directory is empty and the manager's accounting is zero. Non-trivial = the run touched spill files; distinct = distinct scenarios"),
        real: vec!["grafeo_core::execution::parallel::{ParallelPipeline, MorselScheduler, WorkerHandle, ParallelVectorSource}", "push operators Filter/Sort/Distinct/Aggregate", "crossbeam deque (real code, sequentially consistent interleavings only)", "SpillableSortPushOperator, SpillableAggregatePushOperator, ExternalSort, PartitionedState, SpillManager, SpillFile/SpillFileReader and their serializer (real files on tmpfs through the file seam)"],
        stub: vec!["std::thread::scope in pipeline.rs (workers become shuttle threads)", "parking_lot blocking paths", "std atomics in scheduler.rs/pipeline.rs (hooked: a scheduling point before each access)", "results of the spill files' create/open/read/write/remove calls when the fault plan says so"],
        assumptions: vec!["morsel size is the pressure-level minimum of 1024 rows (config.morsel_size is ignored by effective_morsel_size)".into()],
        unchecked: vec![
            "pull-based vs push-based equality, chunk/morsel-size independence of a single-threaded run, merge.rs/fold.rs as functions of their partial inputs: pure functions of (table, chain, configuration), not simulation targets".into(),
            "the async spill manager / async spill files (tokio file I/O; no simulated runtime available); spilling joins do not exist in this tree".into(),
            "ordering of a parallel Sort's output: execute() returns per-worker partials without a merge phase, only the multiset is judged".into(),
        ],
    };
    let batch = Batch { spec, tier: args.tier, seed: args.seed, runs: runs(args, 12_000, 200_000), workers: args.workers };
    let minimise = |f: &Finding| -> Finding { if f.replay["engine"] == "SPILL" { eng_spill::minimise(f) } else { f.clone() } };
    drive(
        batch,
        &|seed, i| if i % 10 == 0 { eng_par::run_one(seed, n_sched) } else { eng_spill::run_one(seed, i, thorough) },
        Some(&minimise),
        &mut |_| {},
    )
}

pub fn replay_file(path: &str) -> i32 {
    let text = match std::fs::read_to_string(path) {
        Ok(t) => t,
        Err(e) => {
            eprintln!("harness error: cannot read {path}: {e}");
            return 2;
        }
    };
    let doc: Value = match serde_json::from_str(&text) {
        Ok(v) => v,
        Err(e) => {
            eprintln!("harness error: {path} is not JSON: {e}");
            return 2;
        }
    };
    let prop = doc["property"].as_str().unwrap_or("?").to_string();
    let want = doc["signature"].as_str().unwrap_or("").to_string();
    let rep = &doc["replay"];
    let found: Vec<(String, String)> = match rep["engine"].as_str() {
        Some("TXM") => eng_txm::replay(rep),
        Some("STORE") => eng_store::replay(rep),
        Some("DISK") => eng_disk::replay(rep),
        Some("SCHED") => eng_sched::replay(rep, &prop),
        Some("HIST") => eng_hist::replay(rep),
        Some("RDF") => eng_rdf::replay(rep),
        Some("PAR") => eng_par::replay(rep),
        Some("TWIN") => eng_twin::replay(rep),
        Some("VEC") => eng_vec::replay(rep),
        Some("VECMT") => eng_vecmt::replay(rep, &prop),
        Some("SNAP") => eng_snap::replay(rep),
        Some("CODEC") => eng_codec::replay(rep),
        Some("SPILL") => eng_spill::replay(rep),
        other => {
            eprintln!("harness error: unknown engine {other:?} in {path}");
            return 2;
        }
    };
    let mut reproduced = false;
    for (sig, detail) in &found {
        println!("replayed: {sig} :: {detail}");
        if *sig == want {
            reproduced = true;
        }
    }
    if reproduced {
        println!("VIOLATION property={prop} replay={path}");
        1
    } else if found.is_empty() {
        println!("replay of {path}: no violation on this tree (recorded signature: {want})");
        0
    } else {
        println!("replay of {path}: different violation than recorded ({want})");
        println!("VIOLATION property={prop} replay={path}");
        1
    }
}
