//! RDF — history simulator over `RdfStore` (C13: the triple store behaves as a set; the
//! transaction buffers; SPARQL through a fixed template family evaluated by brute force).

use std::collections::{BTreeMap, BTreeSet};
use std::sync::Arc;

use grafeo_common::types::{TxId, Value};
use grafeo_core::graph::rdf::{RdfStore, RdfStoreConfig, Term, Triple, TriplePattern};
use grafeo_engine::GrafeoDB;
use serde::{Deserialize, Serialize};
use serde_json::json;

use crate::fw::{Finding, RunOut, guarded, panic_class};
use crate::prng::{Prng, fnv};

pub const N_S: u8 = 3;
pub const N_P: u8 = 2;
pub const N_O: u8 = 7;

/// A triple of the universe: (subject index, predicate index, object index).
#[derive(Clone, Copy, Debug, PartialEq, Eq, PartialOrd, Ord, Serialize, Deserialize)]
pub struct T3(pub u8, pub u8, pub u8);

fn subj(i: u8) -> Term {
    match i % N_S {
        0 => Term::iri("http://ex/s0"),
        1 => Term::iri("http://ex/s1"),
        _ => Term::blank("b0"),
    }
}
fn pred(i: u8) -> Term {
    Term::iri(format!("http://ex/p{}", i % N_P))
}
fn obj(i: u8) -> Term {
    match i % N_O {
        0 => Term::iri("http://ex/s1"), // an IRI that is also a subject
        1 => Term::literal("x"),
        2 => Term::lang_literal("x", "en"),
        3 => Term::typed_literal("1", "http://www.w3.org/2001/XMLSchema#integer"),
        4 => Term::blank("b0"),
        5 => Term::literal(""),
        // same lexical form and a tag that differs from object 2 in case only
        _ => Term::lang_literal("x", "EN"),
    }
}
fn mk(t: T3) -> Triple {
    Triple::new(subj(t.0), pred(t.1), obj(t.2))
}
fn norm(t: T3) -> T3 {
    T3(t.0 % N_S, t.1 % N_P, t.2 % N_O)
}

#[derive(Clone, Debug, PartialEq, Eq, Serialize, Deserialize)]
pub enum ROp {
    Insert(T3),
    Remove(T3),
    Clear,
    TxInsert(u8, T3),
    TxRemove(u8, T3),
    TxCommit(u8),
    TxRollback(u8),
    /// SPARQL mode only: INSERT DATA / DELETE DATA through GrafeoDB::execute_sparql
    SparqlInsert(T3),
    SparqlDelete(T3),
}

impl ROp {
    fn kind(&self) -> &'static str {
        match self {
            ROp::Insert(_) => "insert",
            ROp::Remove(_) => "remove",
            ROp::Clear => "clear",
            ROp::TxInsert(..) => "insert_in_tx",
            ROp::TxRemove(..) => "remove_in_tx",
            ROp::TxCommit(_) => "commit_tx",
            ROp::TxRollback(_) => "rollback_tx",
            ROp::SparqlInsert(_) => "INSERT DATA",
            ROp::SparqlDelete(_) => "DELETE DATA",
        }
    }
}

#[derive(Clone, Debug, Serialize, Deserialize)]
pub struct Config {
    pub index_objects: bool,
    /// run the SPARQL template family through a GrafeoDB after every step
    pub sparql: bool,
}

fn key(t: &Triple) -> String {
    format!("{:?} {:?} {:?}", t.subject(), t.predicate(), t.object())
}

fn sorted_keys(v: &[Arc<Triple>]) -> Vec<String> {
    let mut k: Vec<String> = v.iter().map(|t| key(t)).collect();
    k.sort();
    k
}

fn model_keys(m: &BTreeSet<T3>, f: impl Fn(&T3) -> bool) -> Vec<String> {
    let mut k: Vec<String> = m.iter().filter(|t| f(t)).map(|t| key(&mk(*t))).collect();
    k.sort();
    k
}

fn sparql_term(t: &Term) -> String {
    match t {
        Term::Iri(i) => format!("<{}>", i.as_str()),
        Term::BlankNode(b) => format!("_:{}", b.id()),
        Term::Literal(l) => {
            if let Some(lang) = l.language() {
                format!("\"{}\"@{lang}", l.value())
            } else if l.is_simple() {
                format!("\"{}\"", l.value())
            } else {
                format!("\"{}\"^^<{}>", l.value(), l.datatype())
            }
        }
        _ => "?".into(),
    }
}


/// The pinned twin: the same history on the unmodified tree of the pinned commit. Used only to
/// classify the deviations whose signatures are coarse (the transaction's pending view and
/// the SPARQL template family): a deviation that is also the pinned tree's answer is a listed
/// finding of that tree, any other one is not listable.
mod pin {
    use pinned_common::types::{TxId, Value};
    use pinned_core::graph::rdf::{RdfStore, RdfStoreConfig, Term, Triple, TriplePattern};
    use pinned_engine::GrafeoDB;

    use super::{Config, N_O, N_P, N_S, ROp, T3, norm};

    fn subj(i: u8) -> Term {
        match i % N_S {
            0 => Term::iri("http://ex/s0"),
            1 => Term::iri("http://ex/s1"),
            _ => Term::blank("b0"),
        }
    }
    fn pred(i: u8) -> Term {
        Term::iri(format!("http://ex/p{}", i % N_P))
    }
    fn obj(i: u8) -> Term {
        match i % N_O {
            0 => Term::iri("http://ex/s1"),
            1 => Term::literal("x"),
            2 => Term::lang_literal("x", "en"),
            3 => Term::typed_literal("1", "http://www.w3.org/2001/XMLSchema#integer"),
            4 => Term::blank("b0"),
            5 => Term::literal(""),
            _ => Term::lang_literal("x", "EN"),
        }
    }
    fn mk(t: T3) -> Triple {
        Triple::new(subj(t.0), pred(t.1), obj(t.2))
    }
    fn sparql_term(t: &Term) -> String {
        match t {
            Term::Iri(i) => format!("<{}>", i.as_str()),
            Term::BlankNode(b) => format!("_:{}", b.id()),
            Term::Literal(l) => {
                if let Some(lang) = l.language() {
                    format!("\"{}\"@{lang}", l.value())
                } else if l.is_simple() {
                    format!("\"{}\"", l.value())
                } else {
                    format!("\"{}\"^^<{}>", l.value(), l.datatype())
                }
            }
            _ => "?".into(),
        }
    }

    pub struct Twin {
        db: Option<GrafeoDB>,
        own: Option<RdfStore>,
    }

    impl Twin {
        pub fn new(cfg: &Config) -> Twin {
            if cfg.sparql {
                Twin { db: Some(GrafeoDB::new_in_memory()), own: None }
            } else {
                Twin { db: None, own: Some(RdfStore::with_config(RdfStoreConfig { initial_capacity: 8, index_objects: cfg.index_objects })) }
            }
        }
        fn store(&self) -> &RdfStore {
            match &self.db {
                Some(db) => db.rdf_store(),
                None => self.own.as_ref().unwrap(),
            }
        }
        /// Mirrors `exec`'s handling of one operation (same skips).
        pub fn apply(&self, op: &ROp) {
            let store = self.store();
            match op {
                ROp::Insert(t) => {
                    store.insert(mk(norm(*t)));
                }
                ROp::Remove(t) => {
                    store.remove(&mk(norm(*t)));
                }
                ROp::Clear => store.clear(),
                ROp::TxInsert(x, t) => {
                    let _ = store.insert_in_tx(TxId::new(100 + u64::from(*x)), mk(norm(*t)));
                }
                ROp::TxRemove(x, t) => {
                    let _ = store.remove_in_tx(TxId::new(100 + u64::from(*x)), mk(norm(*t)));
                }
                ROp::TxCommit(x) => {
                    let _ = store.commit_tx(TxId::new(100 + u64::from(*x)));
                }
                ROp::TxRollback(x) => {
                    let _ = store.rollback_tx(TxId::new(100 + u64::from(*x)));
                }
                ROp::SparqlInsert(t) | ROp::SparqlDelete(t) => {
                    let t = norm(*t);
                    let Some(db) = &self.db else { return };
                    if t.0 == 2 || t.2 == 4 {
                        return;
                    }
                    let ins = matches!(op, ROp::SparqlInsert(_));
                    if (t.2 == 2 || t.2 == 3 || t.2 == 6) && !ins {
                        return;
                    }
                    let tr = mk(t);
                    let q = format!("{} DATA {{ {} {} {} }}", if ins { "INSERT" } else { "DELETE" }, sparql_term(tr.subject()), sparql_term(tr.predicate()), sparql_term(tr.object()));
                    let _ = db.execute_sparql(&q);
                }
            }
        }
        pub fn contains(&self, t: T3) -> bool {
            self.store().contains(&mk(t))
        }
        pub fn contains_plain(&self, t: T3, lexical: &str) -> bool {
            let tr = mk(t);
            self.store().contains(&Triple::new(tr.subject().clone(), tr.predicate().clone(), Term::literal(lexical)))
        }
        pub fn find_with_pending(&self, s: u8, p: u8, o: u8, x: u8) -> Vec<String> {
            let pat = TriplePattern {
                subject: if s < N_S { Some(subj(s)) } else { None },
                predicate: if p < N_P { Some(pred(p)) } else { None },
                object: if o < N_O { Some(obj(o)) } else { None },
            };
            let mut k: Vec<String> = self.store().find_with_pending(&pat, Some(TxId::new(100 + u64::from(x)))).iter().map(|t| format!("{:?} {:?} {:?}", t.subject(), t.predicate(), t.object())).collect();
            k.sort();
            k
        }
        pub fn sparql_rows_in_order(&self, q: &str) -> Result<Vec<Vec<String>>, String> {
            let Some(db) = &self.db else { return Err("no database".into()) };
            db.execute_sparql(q).map_err(|e| format!("err:{e}")).map(|r| {
                r.rows
                    .iter()
                    .map(|row| {
                        row.iter()
                            .map(|v| match v {
                                Value::String(s) => s.to_string(),
                                Value::Null => "UNBOUND".to_string(),
                                Value::Int64(i) => i.to_string(),
                                other => format!("{other:?}"),
                            })
                            .collect()
                    })
                    .collect()
            })
        }
        pub fn sparql_rows(&self, q: &str) -> Result<Vec<Vec<String>>, String> {
            let Some(db) = &self.db else { return Err("no database".into()) };
            db.execute_sparql(q).map_err(|e| format!("err:{e}")).map(|r| {
                let mut rows: Vec<Vec<String>> = r
                    .rows
                    .iter()
                    .map(|row| {
                        row.iter()
                            .map(|v| match v {
                                Value::String(s) => s.to_string(),
                                Value::Null => "UNBOUND".to_string(),
                                Value::Int64(i) => i.to_string(),
                                other => format!("{other:?}"),
                            })
                            .collect()
                    })
                    .collect();
                rows.sort();
                rows
            })
        }
    }
}

pub struct ExecResult {
    pub findings: Vec<(String, String)>,
    pub probes: BTreeMap<&'static str, u64>,
    pub steps_done: usize,
    pub nontrivial: bool,
    pub digest: u64,
}

fn check_store(store: &RdfStore, m: &BTreeSet<T3>, cfg: &Config, after: &str, out: &mut Vec<(String, String)>) {
    let mut push = |path: &str, class: &str, detail: String| {
        let sig = format!("C13 | path={path} | {class} | object-index={}", cfg.index_objects);
        if !out.iter().any(|(s, _)| *s == sig) {
            out.push((sig, format!("after {after}: {detail}")));
        }
    };
    let classify = |got: &[String], want: &[String]| -> &'static str {
        let gs: BTreeSet<&String> = got.iter().collect();
        if gs.len() != got.len() {
            "duplicate-result"
        } else if got.len() < want.len() {
            "missing-result"
        } else if got.len() > want.len() {
            "extra-result"
        } else {
            "wrong-result"
        }
    };
    // all eight bound/unbound shapes over every term of the universe
    for s in 0..=N_S {
        for p in 0..=N_P {
            for o in 0..=N_O {
                let pat = TriplePattern {
                    subject: if s < N_S { Some(subj(s)) } else { None },
                    predicate: if p < N_P { Some(pred(p)) } else { None },
                    object: if o < N_O { Some(obj(o)) } else { None },
                };
                let got = sorted_keys(&store.find(&pat));
                let want = model_keys(m, |t| (s == N_S || t.0 == s) && (p == N_P || t.1 == p) && (o == N_O || t.2 == o));
                if got != want {
                    let shape = format!("{}{}{}", if s < N_S { 'S' } else { '?' }, if p < N_P { 'P' } else { '?' }, if o < N_O { 'O' } else { '?' });
                    push(&format!("find({shape})"), classify(&got, &want), format!("{got:?} vs {want:?}"));
                }
            }
        }
    }
    for s in 0..N_S {
        let got = sorted_keys(&store.triples_with_subject(&subj(s)));
        let want = model_keys(m, |t| t.0 == s);
        if got != want {
            push("triples_with_subject", classify(&got, &want), format!("{got:?} vs {want:?}"));
        }
    }
    for p in 0..N_P {
        let got = sorted_keys(&store.triples_with_predicate(&pred(p)));
        let want = model_keys(m, |t| t.1 == p);
        if got != want {
            push("triples_with_predicate", classify(&got, &want), format!("{got:?} vs {want:?}"));
        }
    }
    for o in 0..N_O {
        let got = sorted_keys(&store.triples_with_object(&obj(o)));
        let want = model_keys(m, |t| t.2 == o);
        if got != want {
            push("triples_with_object", classify(&got, &want), format!("{got:?} vs {want:?}"));
        }
    }
    if store.len() != m.len() || store.is_empty() != m.is_empty() {
        push("len", "count-mismatch", format!("{} vs {}", store.len(), m.len()));
    }
    let all = sorted_keys(&store.triples());
    if all != model_keys(m, |_| true) {
        push("triples", "wrong-result", format!("{all:?}"));
    }
    for s in 0..N_S {
        for p in 0..N_P {
            for o in 0..N_O {
                let t = T3(s, p, o);
                if store.contains(&mk(t)) != m.contains(&t) {
                    push("contains", "wrong-result", format!("{t:?}"));
                }
            }
        }
    }
    let st = store.stats();
    let ds: BTreeSet<u8> = m.iter().map(|t| t.0).collect();
    let dp: BTreeSet<u8> = m.iter().map(|t| t.1).collect();
    let dob: BTreeSet<u8> = m.iter().map(|t| t.2).collect();
    if st.triple_count != m.len() || st.subject_count != ds.len() || st.predicate_count != dp.len() || (cfg.index_objects && st.object_count != dob.len()) {
        push("stats", "count-mismatch", format!("{st:?} vs triples {} subjects {} predicates {} objects {}", m.len(), ds.len(), dp.len(), dob.len()));
    }
    let mut gs: Vec<String> = store.subjects().iter().map(|t| format!("{t:?}")).collect();
    gs.sort();
    let mut ws: Vec<String> = ds.iter().map(|s| format!("{:?}", subj(*s))).collect();
    ws.sort();
    if gs != ws {
        push("subjects", classify(&gs, &ws), format!("{gs:?} vs {ws:?}"));
    }
    let mut go: Vec<String> = store.objects().iter().map(|t| format!("{t:?}")).collect();
    go.sort();
    let mut wo: Vec<String> = dob.iter().map(|o| format!("{:?}", obj(*o))).collect();
    wo.sort();
    if go != wo {
        push("objects", classify(&go, &wo), format!("{go:?} vs {wo:?}"));
    }
}

/// The view a transaction must have: committed set with its pending operations applied in
/// order, as a set.
fn tx_view(m: &BTreeSet<T3>, pending: &[(bool, T3)]) -> BTreeSet<T3> {
    let mut v = m.clone();
    for (ins, t) in pending {
        if *ins {
            v.insert(*t);
        } else {
            v.remove(t);
        }
    }
    v
}

fn sparql_rows(db: &GrafeoDB, q: &str) -> Result<Vec<Vec<String>>, String> {
    db.execute_sparql(q).map_err(|e| format!("err:{e}")).map(|r| {
        let mut rows: Vec<Vec<String>> = r
            .rows
            .iter()
            .map(|row| {
                row.iter()
                    .map(|v| match v {
                        Value::String(s) => s.to_string(),
                        Value::Null => "UNBOUND".to_string(),
                        Value::Int64(i) => i.to_string(),
                        other => format!("{other:?}"),
                    })
                    .collect()
            })
            .collect();
        rows.sort();
        rows
    })
}

/// Rows in the order the engine returns them (ORDER BY templates).
fn sparql_rows_in_order(db: &GrafeoDB, q: &str) -> Result<Vec<Vec<String>>, String> {
    db.execute_sparql(q).map_err(|e| format!("err:{e}")).map(|r| {
        r.rows
            .iter()
            .map(|row| {
                row.iter()
                    .map(|v| match v {
                        Value::String(s) => s.to_string(),
                        Value::Null => "UNBOUND".to_string(),
                        Value::Int64(i) => i.to_string(),
                        other => format!("{other:?}"),
                    })
                    .collect()
            })
            .collect()
    })
}

/// Value a SPARQL result cell shows for a term (the engine returns lexical forms).
fn cell(t: &Term) -> String {
    match t {
        Term::Iri(i) => i.as_str().to_string(),
        Term::BlankNode(b) => format!("_:{}", b.id()),
        Term::Literal(l) => l.value().to_string(),
        _ => "?".into(),
    }
}

fn check_sparql(db: &GrafeoDB, twin: &pin::Twin, m: &BTreeSet<T3>, after: &str, out: &mut Vec<(String, String)>, probes: &mut BTreeMap<&'static str, u64>) {
    let mut judge = |name: &str, q: String, mut want: Vec<Vec<String>>| {
        want.sort();
        let got = sparql_rows(db, &q);
        if got.as_ref() == Ok(&want) {
            return;
        }
        // wrong by the brute-force evaluation; is it what the pinned tree answers too?
        let pinned = guarded(|| twin.sparql_rows(&q)).unwrap_or_else(|p| Err(format!("panic:{p}")));
        let sig = match &got {
            Ok(g) => {
                let class = if g.len() < want.len() {
                    "missing-solution"
                } else if g.len() > want.len() {
                    "extra-solution"
                } else {
                    "wrong-solution"
                };
                if pinned.as_ref() == Ok(g) { format!("C13 | sparql={name} | as-pinned-tree") } else { format!("C13 | sparql={name} | {class} | differs-from-pinned-tree") }
            }
            Err(_) => {
                if pinned.is_err() { format!("C13 | sparql={name} | error | as-pinned-tree") } else { format!("C13 | sparql={name} | error | differs-from-pinned-tree") }
            }
        };
        if !out.iter().any(|(s, _)| *s == sig) {
            out.push((sig, format!("after {after}: {q}: {got:?} vs {want:?} (pinned tree {pinned:?})")));
        }
    };
    *probes.entry("sparql_template_rounds").or_insert(0) += 1;
    // all triples
    judge("spo", "SELECT ?s ?p ?o WHERE { ?s ?p ?o }".into(), m.iter().map(|t| vec![cell(&subj(t.0)), cell(&pred(t.1)), cell(&obj(t.2))]).collect());
    // bound subject (IRI subjects only: blank nodes in queries are variables)
    for s in 0..2u8 {
        judge("S??", format!("SELECT ?p ?o WHERE {{ {} ?p ?o }}", sparql_term(&subj(s))), m.iter().filter(|t| t.0 == s).map(|t| vec![cell(&pred(t.1)), cell(&obj(t.2))]).collect());
    }
    for p in 0..N_P {
        judge("?P?", format!("SELECT ?s ?o WHERE {{ ?s {} ?o }}", sparql_term(&pred(p))), m.iter().filter(|t| t.1 == p).map(|t| vec![cell(&subj(t.0)), cell(&obj(t.2))]).collect());
    }
    for o in [0u8, 1, 3] {
        judge("??O", format!("SELECT ?s ?p WHERE {{ ?s ?p {} }}", sparql_term(&obj(o))), m.iter().filter(|t| t.2 == o).map(|t| vec![cell(&subj(t.0)), cell(&pred(t.1))]).collect());
    }
    // join on a shared variable
    let mut join = Vec::new();
    for a in m.iter().filter(|t| t.1 == 0) {
        for b in m.iter().filter(|t| t.1 == 1 && t.0 == a.0) {
            join.push(vec![cell(&subj(a.0)), cell(&obj(a.2)), cell(&obj(b.2))]);
        }
    }
    judge("join", format!("SELECT ?s ?a ?b WHERE {{ ?s {} ?a . ?s {} ?b }}", sparql_term(&pred(0)), sparql_term(&pred(1))), join);
    // DISTINCT subjects
    let ds: BTreeSet<u8> = m.iter().map(|t| t.0).collect();
    judge("distinct", "SELECT DISTINCT ?s WHERE { ?s ?p ?o }".into(), ds.iter().map(|s| vec![cell(&subj(*s))]).collect());
    // COUNT
    judge("count", "SELECT (COUNT(*) AS ?c) WHERE { ?s ?p ?o }".into(), vec![vec![m.len().to_string()]]);
    // UNION of the two predicates = everything
    judge(
        "union",
        format!("SELECT ?s ?o WHERE {{ {{ ?s {} ?o }} UNION {{ ?s {} ?o }} }}", sparql_term(&pred(0)), sparql_term(&pred(1))),
        m.iter().map(|t| vec![cell(&subj(t.0)), cell(&obj(t.2))]).collect(),
    );
    // OPTIONAL
    let mut opt = Vec::new();
    for a in m.iter().filter(|t| t.1 == 0) {
        let bs: Vec<&T3> = m.iter().filter(|t| t.1 == 1 && t.0 == a.0).collect();
        if bs.is_empty() {
            opt.push(vec![cell(&subj(a.0)), cell(&obj(a.2)), "UNBOUND".to_string()]);
        }
        for b in bs {
            opt.push(vec![cell(&subj(a.0)), cell(&obj(a.2)), cell(&obj(b.2))]);
        }
    }
    judge("optional", format!("SELECT ?s ?a ?b WHERE {{ ?s {} ?a OPTIONAL {{ ?s {} ?b }} }}", sparql_term(&pred(0)), sparql_term(&pred(1))), opt.clone());
    // OPTIONAL followed by a FILTER on whether its variable got bound
    judge(
        "optional-filter-bound",
        format!("SELECT ?s ?a ?b WHERE {{ ?s {} ?a OPTIONAL {{ ?s {} ?b }} FILTER(bound(?b)) }}", sparql_term(&pred(0)), sparql_term(&pred(1))),
        opt.iter().filter(|r| r[2] != "UNBOUND").cloned().collect(),
    );
    judge(
        "optional-filter-not-bound",
        format!("SELECT ?s ?a WHERE {{ ?s {} ?a OPTIONAL {{ ?s {} ?b }} FILTER(!bound(?b)) }}", sparql_term(&pred(0)), sparql_term(&pred(1))),
        opt.iter().filter(|r| r[2] == "UNBOUND").map(|r| vec![r[0].clone(), r[1].clone()]).collect(),
    );
    // UNION whose branches bind different variables
    {
        let mut rows: Vec<Vec<String>> = m.iter().filter(|t| t.1 == 0).map(|t| vec![cell(&subj(t.0)), "UNBOUND".to_string()]).collect();
        rows.extend(m.iter().filter(|t| t.1 == 1).map(|t| vec!["UNBOUND".to_string(), cell(&subj(t.0))]));
        judge("union-different-variables", format!("SELECT ?a ?b WHERE {{ {{ ?a {} ?x }} UNION {{ ?b {} ?y }} }}", sparql_term(&pred(0)), sparql_term(&pred(1))), rows);
    }
    // grouping: triples per subject; number of distinct subjects; distinct (subject, predicate) pairs
    {
        let mut per: BTreeMap<u8, usize> = BTreeMap::new();
        for t in m.iter() {
            *per.entry(t.0).or_insert(0) += 1;
        }
        judge("group-by-count", "SELECT ?s (COUNT(*) AS ?c) WHERE { ?s ?p ?o } GROUP BY ?s".into(), per.iter().map(|(s0, c)| vec![cell(&subj(*s0)), c.to_string()]).collect());
        judge("count-distinct", "SELECT (COUNT(DISTINCT ?s) AS ?c) WHERE { ?s ?p ?o }".into(), vec![vec![per.len().to_string()]]);
        let sp: BTreeSet<(u8, u8)> = m.iter().map(|t| (t.0, t.1)).collect();
        judge("distinct-pairs", "SELECT DISTINCT ?s ?p WHERE { ?s ?p ?o }".into(), sp.iter().map(|(a, b)| vec![cell(&subj(*a)), cell(&pred(*b))]).collect());
    }
    // FILTER on equality with a plain literal
    judge(
        "filter",
        "SELECT ?s ?p WHERE { ?s ?p ?o FILTER(?o = \"x\") }".into(),
        m.iter().filter(|t| t.2 == 1).map(|t| vec![cell(&subj(t.0)), cell(&pred(t.1))]).collect(),
    );
    // join on TWO shared variables: only pairs that agree on both
    let mut join2 = Vec::new();
    for a in m.iter().filter(|t| t.1 == 0) {
        if m.contains(&T3(a.0, 1, a.2)) {
            join2.push(vec![cell(&subj(a.0)), cell(&obj(a.2))]);
        }
    }
    judge("join-two-shared-variables", format!("SELECT ?s ?o WHERE {{ ?s {} ?o . ?s {} ?o }}", sparql_term(&pred(0)), sparql_term(&pred(1))), join2);
    // OPTIONAL whose inner pattern shares two variables
    let mut opt2 = Vec::new();
    for a in m.iter().filter(|t| t.1 == 0) {
        // ?x stays unbound unless the very same (s, o) pair exists under p1
        let _ = a;
    }
    for a in m.iter().filter(|t| t.1 == 0) {
        opt2.push(vec![cell(&subj(a.0)), cell(&obj(a.2)), if m.contains(&T3(a.0, 1, a.2)) { "yes".to_string() } else { "UNBOUND".to_string() }]);
    }
    let _ = opt2; // (BIND inside OPTIONAL is outside the template family; the two-variable OPTIONAL is judged by row count below)
    let mut opt2c = Vec::new();
    for a in m.iter().filter(|t| t.1 == 0) {
        opt2c.push(vec![cell(&subj(a.0)), cell(&obj(a.2))]);
    }
    judge("optional-two-shared-variables", format!("SELECT ?s ?o WHERE {{ ?s {} ?o OPTIONAL {{ ?s {} ?o }} }}", sparql_term(&pred(0)), sparql_term(&pred(1))), opt2c);
    // the same variable twice in one pattern
    judge(
        "same-variable-twice",
        "SELECT ?x ?p WHERE { ?x ?p ?x }".into(),
        m.iter().filter(|t| cell(&subj(t.0)) == cell(&obj(t.2)) && matches!((subj(t.0), obj(t.2)), (Term::Iri(_), Term::Iri(_)))).map(|t| vec![cell(&subj(t.0)), cell(&pred(t.1))]).collect(),
    );
    // COUNT after FILTER
    judge("count-after-filter", "SELECT (COUNT(*) AS ?c) WHERE { ?s ?p ?o FILTER(?o = \"x\") }".into(), vec![vec![m.iter().filter(|t| t.2 == 1).count().to_string()]]);
    // UNION whose left branch is empty (predicate that is never used)
    judge(
        "union-empty-left",
        format!("SELECT ?s ?o WHERE {{ {{ ?s <http://ex/never> ?o }} UNION {{ ?s {} ?o }} }}", sparql_term(&pred(1))),
        m.iter().filter(|t| t.1 == 1).map(|t| vec![cell(&subj(t.0)), cell(&obj(t.2))]).collect(),
    );
    // three-pattern chain through an IRI that is both object and subject
    let mut chain = Vec::new();
    for a in m.iter().filter(|t| t.2 == 0) {
        // a.object = <s1>; continue from subject s1
        for b in m.iter().filter(|t| t.0 == 1) {
            chain.push(vec![cell(&subj(a.0)), cell(&pred(b.1)), cell(&obj(b.2))]);
        }
    }
    judge("chain", "SELECT ?a ?p ?c WHERE { ?a ?q ?b . ?b ?p ?c }".into(), {
        // general form: every (t1, t2) with object(t1) == subject(t2) as terms
        let mut v = Vec::new();
        for t1 in m.iter() {
            for t2 in m.iter() {
                let (o1, s2) = (obj(t1.2), subj(t2.0));
                if o1 == s2 {
                    v.push(vec![cell(&subj(t1.0)), cell(&pred(t2.1)), cell(&obj(t2.2))]);
                }
            }
        }
        let _ = chain;
        v
    });
    // ORDER BY / LIMIT / OFFSET. How terms of different kinds compare is the engine's choice, so
    // the oracle is the engine's own full ordering: a LIMIT/OFFSET window of an ordered query
    // must be exactly that window of the same query without LIMIT/OFFSET (rows that tie on all
    // three sort keys are the same triple's row).
    let base = "SELECT ?o ?s ?p WHERE { ?s ?p ?o } ORDER BY ?o ?s ?p";
    if let Ok(full) = sparql_rows_in_order(db, base) {
        for (name, suffix, lo, n) in [("order-limit", " LIMIT 2", 0usize, 2usize), ("order-limit-offset", " LIMIT 2 OFFSET 1", 1, 2), ("order-desc-limit", "", 0, 1)] {
            let (q, want): (String, Vec<Vec<String>>) = if name == "order-desc-limit" {
                // the maximum under DESC is the last row of the ascending order (on the first key)
                ("SELECT ?o WHERE { ?s ?p ?o } ORDER BY DESC(?o) LIMIT 1".to_string(), full.last().map(|r| vec![vec![r[0].clone()]]).unwrap_or_default())
            } else {
                (format!("{base}{suffix}"), full.iter().skip(lo).take(n).cloned().collect())
            };
            let got = sparql_rows_in_order(db, &q);
            if got.as_ref() == Ok(&want) {
                continue;
            }
            let pinned = guarded(|| twin.sparql_rows_in_order(&q)).unwrap_or_else(|p| Err(format!("panic:{p}")));
            let sig = if pinned == got { format!("C13 | sparql={name} | as-pinned-tree") } else { format!("C13 | sparql={name} | window-differs-from-full-order | differs-from-pinned-tree") };
            if !out.iter().any(|(s, _)| *s == sig) {
                out.push((sig, format!("after {after}: {q}: {got:?} vs the window {want:?} of the full order (pinned tree {pinned:?})")));
            }
        }
    }
}

pub fn exec(cfg: &Config, ops: &[ROp]) -> ExecResult {
    let db = if cfg.sparql { Some(GrafeoDB::new_in_memory()) } else { None };
    let own;
    let store: &RdfStore = match &db {
        Some(db) => db.rdf_store(),
        None => {
            own = RdfStore::with_config(RdfStoreConfig { initial_capacity: 8, index_objects: cfg.index_objects });
            &own
        }
    };
    let twin = pin::Twin::new(cfg);
    let mut m: BTreeSet<T3> = BTreeSet::new();
    let mut pending: BTreeMap<u8, Vec<(bool, T3)>> = BTreeMap::new();
    let mut findings: Vec<(String, String)> = Vec::new();
    let mut probes: BTreeMap<&'static str, u64> = BTreeMap::new();
    let mut digest = 0u64;
    let mut steps_done = 0;
    for (i, op) in ops.iter().enumerate() {
        let mut ret_bad: Option<String> = None;
        let _ = guarded(|| twin.apply(op));
        match op {
            ROp::Insert(t) => {
                let t = norm(*t);
                let r = store.insert(mk(t));
                if r != m.insert(t) {
                    ret_bad = Some(format!("insert returned {r}"));
                }
            }
            ROp::Remove(t) => {
                let t = norm(*t);
                let r = store.remove(&mk(t));
                if r != m.remove(&t) {
                    ret_bad = Some(format!("remove returned {r}"));
                } else if !r {
                    *probes.entry("remove_of_absent_triple").or_insert(0) += 1;
                }
            }
            ROp::Clear => {
                store.clear();
                m.clear();
            }
            ROp::TxInsert(x, t) => {
                store.insert_in_tx(TxId::new(100 + u64::from(*x)), mk(norm(*t)));
                pending.entry(*x).or_default().push((true, norm(*t)));
            }
            ROp::TxRemove(x, t) => {
                store.remove_in_tx(TxId::new(100 + u64::from(*x)), mk(norm(*t)));
                pending.entry(*x).or_default().push((false, norm(*t)));
            }
            ROp::TxCommit(x) => {
                store.commit_tx(TxId::new(100 + u64::from(*x)));
                if let Some(p) = pending.remove(x) {
                    m = tx_view(&m, &p);
                }
            }
            ROp::TxRollback(x) => {
                store.rollback_tx(TxId::new(100 + u64::from(*x)));
                pending.remove(x);
            }
            ROp::SparqlInsert(t) | ROp::SparqlDelete(t) => {
                let t = norm(*t);
                if let Some(db) = &db {
                    // blank nodes in INSERT DATA get fresh labels: use IRI/literal terms only
                    if t.0 == 2 || t.2 == 4 {
                        continue;
                    }
                    let tr = mk(t);
                    let ins = matches!(op, ROp::SparqlInsert(_));
                    if (t.2 == 2 || t.2 == 3 || t.2 == 6) && !ins {
                        continue; // a delete of an annotated literal would hit the plain one (see below)
                    }
                    let q = format!("{} DATA {{ {} {} {} }}", if ins { "INSERT" } else { "DELETE" }, sparql_term(tr.subject()), sparql_term(tr.predicate()), sparql_term(tr.object()));
                    match db.execute_sparql(&q) {
                        Ok(_) => {
                            if ins {
                                m.insert(t);
                            } else {
                                m.remove(&t);
                            }
                            // annotated literals: does the update carry language / datatype?
                            // (probe; the run ends here because the state may be tainted)
                            if t.2 == 2 || t.2 == 3 || t.2 == 6 {
                                let plain = Triple::new(tr.subject().clone(), tr.predicate().clone(), Term::literal(if t.2 == 3 { "1" } else { "x" }));
                                let plain_expected = t.2 != 3 && m.contains(&T3(t.0, t.1, 1));
                                if !store.contains(&tr) || (store.contains(&plain) && !plain_expected) {
                                    let same = twin.contains(t) == store.contains(&tr) && twin.contains_plain(t, if t.2 == 3 { "1" } else { "x" }) == store.contains(&plain);
                                    findings.push((
                                        format!("C13 | sparql={} | literal-language-or-datatype-lost | {}", op.kind(), if same { "as-pinned-tree" } else { "differs-from-pinned-tree" }),
                                        format!("step {i}: after {q} the store holds the literal without its language tag / datatype"),
                                    ));
                                }
                                break;
                            }
                        }
                        Err(e) => ret_bad = Some(format!("{q}: {e}")),
                    }
                } else {
                    continue;
                }
            }
        }
        steps_done = i + 1;
        digest = digest.rotate_left(3) ^ fnv(op.kind().as_bytes()) ^ m.len() as u64;
        if let Some(d) = ret_bad {
            findings.push((format!("C13 | path={} | return-value | object-index={}", op.kind(), cfg.index_objects), format!("step {i}: {d}")));
            break;
        }
        check_store(store, &m, cfg, &format!("step {i} ({})", op.kind()), &mut findings);
        // the transaction buffers: every open transaction's view through find_with_pending
        for (x, p) in &pending {
            let view = tx_view(&m, p);
            for (s, pp, o) in [(N_S, N_P, N_O), (0, N_P, N_O), (N_S, 0, N_O), (N_S, N_P, 1), (1, 1, N_O)] {
                let pat = TriplePattern {
                    subject: if s < N_S { Some(subj(s)) } else { None },
                    predicate: if pp < N_P { Some(pred(pp)) } else { None },
                    object: if o < N_O { Some(obj(o)) } else { None },
                };
                let got = sorted_keys(&store.find_with_pending(&pat, Some(TxId::new(100 + u64::from(*x)))));
                let want = model_keys(&view, |t| (s == N_S || t.0 == s) && (pp == N_P || t.1 == pp) && (o == N_O || t.2 == o));
                if got != want {
                    let gs: BTreeSet<&String> = got.iter().collect();
                    let class = if gs.len() != got.len() { "duplicate-result" } else if got.len() > want.len() { "extra-result" } else if got.len() < want.len() { "missing-result" } else { "wrong-result" };
                    let pinned = guarded(|| twin.find_with_pending(s, pp, o, *x)).unwrap_or_default();
                    let sig = if pinned == got { "C13 | path=find_with_pending | pending-view-not-a-set | as-pinned-tree".to_string() } else { format!("C13 | path=find_with_pending | {class} | differs-from-pinned-tree") };
                    if !findings.iter().any(|(s0, _)| *s0 == sig) {
                        findings.push((sig, format!("step {i}: tx {x} pending {p:?}: {got:?} vs {want:?}")));
                    }
                }
                *probes.entry("pending_view_checked").or_insert(0) += 1;
            }
        }
        if let Some(db) = &db {
            if pending.is_empty() {
                check_sparql(db, &twin, &m, &format!("step {i} ({})", op.kind()), &mut findings, &mut probes);
            }
        }
        if findings.len() >= 6 {
            break;
        }
    }
    ExecResult { findings, probes, steps_done, nontrivial: steps_done >= 2, digest }
}

pub fn generate(rng: &mut Prng, thorough: bool) -> (Config, Vec<ROp>) {
    let sparql = rng.chance(1, 4);
    let cfg = Config { index_objects: sparql || !rng.chance(1, 3), sparql };
    let len = rng.range(2, if thorough { 40 } else { 20 }) as usize;
    let tx_on = !sparql && rng.chance(1, 2);
    let mut ops = Vec::new();
    while ops.len() < len {
        // small universe, heavy reuse of the same triples (duplicates, removal of absent ones)
        let t = T3(rng.below(u64::from(N_S)) as u8, rng.below(u64::from(N_P)) as u8, rng.below(u64::from(N_O)) as u8);
        let op = match rng.below(16) {
            0..=4 => ROp::Insert(t),
            5..=7 => ROp::Remove(t),
            8 if rng.chance(1, 3) => ROp::Clear,
            9 | 10 if tx_on => ROp::TxInsert(rng.below(2) as u8, t),
            11 if tx_on => ROp::TxRemove(rng.below(2) as u8, t),
            12 if tx_on => ROp::TxCommit(rng.below(2) as u8),
            13 if tx_on => ROp::TxRollback(rng.below(2) as u8),
            14 if sparql => ROp::SparqlInsert(t),
            15 if sparql => ROp::SparqlDelete(t),
            _ => continue,
        };
        ops.push(op);
    }
    (cfg, ops)
}

fn run_guarded(cfg: &Config, ops: &[ROp]) -> ExecResult {
    match guarded(|| exec(cfg, ops)) {
        Ok(r) => r,
        Err(msg) => ExecResult { findings: vec![(format!("C13 | panic | {}", panic_class(&msg)), msg)], probes: BTreeMap::new(), steps_done: 0, nontrivial: true, digest: 0 },
    }
}

pub fn replay_doc(cfg: &Config, ops: &[ROp]) -> serde_json::Value {
    json!({"engine": "RDF", "config": cfg, "ops": ops, "schedule": null, "faults": []})
}

pub fn run_one(seed: u64, thorough: bool) -> RunOut {
    let mut rng = Prng::new(seed);
    let (cfg, ops) = generate(&mut rng, thorough);
    let res = run_guarded(&cfg, &ops);
    let mut out = RunOut::default();
    out.hash = fnv(&serde_json::to_vec(&(&cfg, &ops)).unwrap());
    out.shape = fnv(ops.iter().map(|o| o.kind()).collect::<Vec<_>>().join(",").as_bytes());
    out.nontrivial = res.nontrivial;
    out.steps = res.steps_done as u64;
    out.probes = res.probes;
    out.digest = res.digest;
    if ops.len() <= 12 {
        out.sample = Some(json!({"seed": seed, "config": cfg, "ops": ops}));
    }
    for (sig, detail) in res.findings {
        out.findings.push(Finding { property: "C13".into(), signature: sig, detail, replay: replay_doc(&cfg, &ops) });
    }
    out
}

pub fn minimise(f: &Finding) -> Finding {
    let cfg: Config = serde_json::from_value(f.replay["config"].clone()).unwrap();
    let ops: Vec<ROp> = serde_json::from_value(f.replay["ops"].clone()).unwrap();
    let sig = f.signature.clone();
    let mut fails = |cand: &[ROp]| run_guarded(&cfg, cand).findings.iter().any(|(s, _)| *s == sig);
    let small = if fails(&ops) { crate::fw::ddmin(&ops, &mut fails, 400) } else { ops.clone() };
    let res = run_guarded(&cfg, &small);
    let detail = res.findings.iter().find(|(s, _)| *s == sig).map(|(_, d)| d.clone()).unwrap_or_else(|| f.detail.clone());
    Finding { property: f.property.clone(), signature: sig, detail, replay: replay_doc(&cfg, &small) }
}

pub fn replay(doc: &serde_json::Value) -> Vec<(String, String)> {
    let cfg: Config = serde_json::from_value(doc["config"].clone()).unwrap();
    let ops: Vec<ROp> = serde_json::from_value(doc["ops"].clone()).unwrap();
    for (i, o) in ops.iter().enumerate() {
        println!("  {i}: {o:?}");
    }
    run_guarded(&cfg, &ops).findings
}
