//! One integer decides everything: SplitMix64 seeding a xoshiro256** stream.
//! No draw ever happens in a logging path.

#[derive(Clone, Debug)]
pub struct Prng {
    s: [u64; 4],
    pub draws: u64,
}

pub fn splitmix(x: &mut u64) -> u64 {
    *x = x.wrapping_add(0x9E37_79B9_7F4A_7C15);
    let mut z = *x;
    z = (z ^ (z >> 30)).wrapping_mul(0xBF58_476D_1CE4_E5B9);
    z = (z ^ (z >> 27)).wrapping_mul(0x94D0_49BB_1331_11EB);
    z ^ (z >> 31)
}

/// Derives the seed of run `i` of check `check` from the batch seed.
pub fn mix(seed: u64, check: &str, i: u64) -> u64 {
    let mut h = seed ^ 0xA076_1D64_78BD_642F;
    for b in check.bytes() {
        h = (h ^ u64::from(b)).wrapping_mul(0x1000_0000_01B3);
    }
    let mut x = h ^ i.wrapping_mul(0xE703_7ED1_A0B4_28DB);
    splitmix(&mut x)
}

impl Prng {
    pub fn new(seed: u64) -> Self {
        let mut x = seed;
        let s = [
            splitmix(&mut x),
            splitmix(&mut x),
            splitmix(&mut x),
            splitmix(&mut x),
        ];
        Self { s, draws: 0 }
    }

    pub fn next_u64(&mut self) -> u64 {
        self.draws += 1;
        let r = self.s[1].wrapping_mul(5).rotate_left(7).wrapping_mul(9);
        let t = self.s[1] << 17;
        self.s[2] ^= self.s[0];
        self.s[3] ^= self.s[1];
        self.s[1] ^= self.s[2];
        self.s[0] ^= self.s[3];
        self.s[2] ^= t;
        self.s[3] = self.s[3].rotate_left(45);
        r
    }

    /// Uniform in 0..n (n > 0).
    pub fn below(&mut self, n: u64) -> u64 {
        debug_assert!(n > 0);
        // multiply-shift; bias is irrelevant at these sizes
        ((u128::from(self.next_u64()) * u128::from(n)) >> 64) as u64
    }

    pub fn usize(&mut self, n: usize) -> usize {
        self.below(n as u64) as usize
    }

    /// Uniform in lo..=hi.
    pub fn range(&mut self, lo: u64, hi: u64) -> u64 {
        lo + self.below(hi - lo + 1)
    }

    /// True with probability num/den.
    pub fn chance(&mut self, num: u64, den: u64) -> bool {
        self.below(den) < num
    }

    pub fn pick<'a, T>(&mut self, xs: &'a [T]) -> &'a T {
        &xs[self.usize(xs.len())]
    }

    /// Picks an index according to integer weights (sum > 0).
    pub fn weighted(&mut self, ws: &[u32]) -> usize {
        let total: u64 = ws.iter().map(|w| u64::from(*w)).sum();
        let mut r = self.below(total.max(1));
        for (i, w) in ws.iter().enumerate() {
            let w = u64::from(*w);
            if r < w {
                return i;
            }
            r -= w;
        }
        ws.len() - 1
    }

    pub fn f64(&mut self) -> f64 {
        (self.next_u64() >> 11) as f64 / (1u64 << 53) as f64
    }

    pub fn fork(&mut self) -> Prng {
        Prng::new(self.next_u64())
    }
}

/// FNV-1a over bytes; used for "distinct case" hashes (never for decisions).
pub fn fnv(bytes: &[u8]) -> u64 {
    let mut h: u64 = 0xcbf2_9ce4_8422_2325;
    for b in bytes {
        h ^= u64::from(*b);
        h = h.wrapping_mul(0x1000_0000_01B3);
    }
    h
}
