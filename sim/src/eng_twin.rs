//! TWIN — the history-dependent half of C10: one history of (data change | create/drop
//! index | query) applied in lock-step to database A (property indexes as generated, plan
//! cache on, factorized execution on, two sessions sharing the cache) and twin B (never an
//! index, plan cache bypassed through execute_with_params, factorized execution off). After
//! every query the row multisets must be equal, and equal to brute force over the model
//! for the templates whose semantics are unambiguous.

use std::collections::{BTreeMap, HashMap};

use grafeo_common::types::{EdgeId, NodeId, Value};
use grafeo_engine::{Config as DbConfig, GrafeoDB};
use serde::{Deserialize, Serialize};
use serde_json::json;

use crate::fw::{Finding, RunOut, guarded, panic_class};
use crate::prng::{Prng, fnv};

const LABELS: [&str; 2] = ["A", "B"];
const KEYS: [&str; 3] = ["k", "m", "s"];
const STRS: [&str; 4] = ["a b", "a  b", "ab", "a b "];

#[derive(Clone, Debug, PartialEq, Serialize, Deserialize)]
pub enum Q {
    /// MATCH (n[:L]) WHERE n.k = c
    Eq(Option<u8>, u8, i64),
    /// n.k > / >= / < / <= c
    Cmp(Option<u8>, u8, u8, i64),
    /// lo <= n.k < hi
    Between(u8, i64, i64),
    /// two-sided range in one of four spellings: bit 0 = upper bound written first, bit 1 = lower bound exclusive / upper inclusive
    BetweenForm(u8, i64, i64, u8),
    /// n.k = c AND n.m = d
    And(u8, i64, i64),
    /// n.k = c OR n.m = d
    Or(u8, i64, i64),
    /// n.k = c.0 (float constant against integer data)
    EqFloat(u8, i64),
    /// string equality with a literal that contains whitespace
    StrEq(u8),
    /// edge property predicate
    EdgeEq(i64),
    Hop2,
    Hop3,
    Count(Option<u8>),
}

#[derive(Clone, Debug, PartialEq, Serialize, Deserialize)]
pub enum TOp {
    CreateNode(u8, i64, i64, u8),
    SetProp(usize, u8, i64),
    SetStr(usize, u8),
    RemoveProp(usize, u8),
    DeleteNode(usize),
    CreateEdge(usize, usize, i64),
    DeleteEdge(usize),
    CreateIndex(u8),
    DropIndex(u8),
    /// query through session (0|1) of A, and through B
    Query(u8, Q),
    /// the same query text again with different spacing between tokens
    QueryRespaced(u8, Q),
    /// only as the first operation: capacity of A's plan cache (guarded knob), so that the
    /// per-run pool of query texts overflows it and plans are evicted and rebuilt
    CacheCapacity(u8),
}

impl TOp {
    fn kind(&self) -> &'static str {
        match self {
            TOp::CreateNode(..) => "create_node",
            TOp::SetProp(..) | TOp::SetStr(..) => "set_property",
            TOp::RemoveProp(..) => "remove_property",
            TOp::DeleteNode(_) => "delete_node",
            TOp::CreateEdge(..) => "create_edge",
            TOp::DeleteEdge(_) => "delete_edge",
            TOp::CreateIndex(_) => "create_index",
            TOp::DropIndex(_) => "drop_index",
            TOp::Query(..) => "query",
            TOp::QueryRespaced(..) => "query_respaced",
            TOp::CacheCapacity(_) => "cache_capacity",
        }
    }
}

fn qname(q: &Q) -> &'static str {
    match q {
        Q::Eq(..) => "equality",
        Q::Cmp(..) => "comparison",
        Q::Between(..) => "range",
        Q::BetweenForm(..) => "range-spelling",
        Q::And(..) => "conjunction",
        Q::Or(..) => "disjunction",
        Q::EqFloat(..) => "int-vs-float-constant",
        Q::StrEq(_) => "string-literal-with-whitespace",
        Q::EdgeEq(_) => "edge-property",
        Q::Hop2 => "two-hop",
        Q::Hop3 => "three-hop",
        Q::Count(_) => "count",
    }
}

fn text(q: &Q, spaced: bool) -> String {
    let sp = if spaced { "   " } else { " " };
    let pat = |l: &Option<u8>| match l {
        Some(l) => format!("(n:{})", LABELS[*l as usize % 2]),
        None => "(n)".to_string(),
    };
    let body = match q {
        Q::Eq(l, k, c) => format!("MATCH {} WHERE n.{} = {c} RETURN id(n)", pat(l), KEYS[*k as usize % 2]),
        Q::Cmp(l, k, op, c) => format!("MATCH {} WHERE n.{} {} {c} RETURN id(n)", pat(l), KEYS[*k as usize % 2], [">", ">=", "<", "<="][*op as usize % 4]),
        Q::Between(k, lo, hi) => format!("MATCH (n) WHERE n.{0} >= {lo} AND n.{0} < {hi} RETURN id(n)", KEYS[*k as usize % 2]),
        Q::BetweenForm(k, lo, hi, form) => {
            let key = KEYS[*k as usize % 2];
            let (lop, hop) = if form & 2 == 0 { (">=", "<") } else { (">", "<=") };
            if form & 1 == 0 {
                format!("MATCH (n) WHERE n.{key} {lop} {lo} AND n.{key} {hop} {hi} RETURN id(n)")
            } else {
                format!("MATCH (n) WHERE n.{key} {hop} {hi} AND n.{key} {lop} {lo} RETURN id(n)")
            }
        }
        Q::And(_, c, d) => format!("MATCH (n) WHERE n.k = {c} AND n.m = {d} RETURN id(n)"),
        Q::Or(_, c, d) => format!("MATCH (n) WHERE n.k = {c} OR n.m = {d} RETURN id(n)"),
        Q::EqFloat(k, c) => format!("MATCH (n) WHERE n.{} = {c}.0 RETURN id(n)", KEYS[*k as usize % 2]),
        Q::StrEq(s) => format!("MATCH (n) WHERE n.s = '{}' RETURN id(n)", STRS[*s as usize % 4]),
        Q::EdgeEq(c) => format!("MATCH (a)-[r]->(b) WHERE r.k = {c} RETURN id(r)"),
        Q::Hop2 => "MATCH (a)-[]->(b)-[]->(c) RETURN id(a), id(c)".to_string(),
        Q::Hop3 => "MATCH (a)-[]->(b)-[]->(c)-[]->(d) RETURN id(a), id(d)".to_string(),
        Q::Count(l) => format!("MATCH {} RETURN count(n)", pat(l)),
    };
    if spaced {
        // only the spacing *between* tokens changes; the string literal is untouched
        let (head, tail) = match body.find('\'') {
            Some(p) => (body[..p].to_string(), body[p..].to_string()),
            None => (body.clone(), String::new()),
        };
        let head = head.replace(' ', sp);
        let tail = match tail.rfind('\'') {
            Some(p) => format!("{}{}", &tail[..=p], tail[p + 1..].replace(' ', sp)),
            None => tail,
        };
        format!("{head}{tail}")
    } else {
        body
    }
}

#[derive(Clone, Default)]
struct MNode {
    label: u8,
    k: Option<i64>,
    m: Option<i64>,
    s: Option<u8>,
}

#[derive(Default)]
struct Model {
    nodes: BTreeMap<u64, MNode>,
    edges: BTreeMap<u64, (u64, u64, i64)>,
}

impl Model {
    /// Brute-force answer, or None where the template's semantics are left to the A/B comparison.
    fn answer(&self, q: &Q) -> Option<Vec<String>> {
        let ids = |f: &dyn Fn(&MNode) -> bool| -> Vec<String> {
            let mut v: Vec<String> = self.nodes.iter().filter(|(_, n)| f(n)).map(|(i, _)| format!("[Int64({i})]")).collect();
            v.sort();
            v
        };
        let lab = |l: &Option<u8>, n: &MNode| l.is_none_or(|l| n.label == l % 2);
        let key = |n: &MNode, k: u8| if k % 2 == 0 { n.k } else { n.m };
        Some(match q {
            Q::Eq(l, k, c) => ids(&|n| lab(l, n) && key(n, *k) == Some(*c)),
            Q::Cmp(l, k, op, c) => ids(&|n| {
                lab(l, n)
                    && key(n, *k).is_some_and(|v| match op % 4 {
                        0 => v > *c,
                        1 => v >= *c,
                        2 => v < *c,
                        _ => v <= *c,
                    })
            }),
            Q::Between(k, lo, hi) => ids(&|n| key(n, *k).is_some_and(|v| v >= *lo && v < *hi)),
            Q::BetweenForm(k, lo, hi, form) => ids(&|n| key(n, *k).is_some_and(|v| if form & 2 == 0 { v >= *lo && v < *hi } else { v > *lo && v <= *hi })),
            Q::And(_, c, d) => ids(&|n| n.k == Some(*c) && n.m == Some(*d)),
            Q::StrEq(s) => ids(&|n| n.s == Some(*s % 4)),
            Q::Count(l) => vec![format!("[Int64({})]", self.nodes.values().filter(|n| lab(l, n)).count())],
            // three-valued OR with a missing property, edge-property predicates, numeric
            // coercion and multi-hop semantics are pure query semantics (C08/C11): only the
            // A/B comparison applies to them here
            Q::Or(..) | Q::EdgeEq(_) | Q::EqFloat(..) | Q::Hop2 | Q::Hop3 => return None,
        })
    }
}

fn rows(r: Result<grafeo_engine::database::QueryResult, grafeo_common::utils::error::Error>) -> Vec<String> {
    match r {
        Ok(res) => {
            let mut v: Vec<String> = res.rows.iter().map(|row| format!("{row:?}")).collect();
            v.sort();
            v
        }
        Err(e) => vec![format!("err:{e}")],
    }
}

pub struct ExecResult {
    pub findings: Vec<(String, String)>,
    pub probes: BTreeMap<&'static str, u64>,
    pub steps_done: usize,
    pub nontrivial: bool,
    pub digest: u64,
}

pub fn exec(ops: &[TOp]) -> ExecResult {
    let cap = match ops.first() {
        Some(TOp::CacheCapacity(n)) => Some(u64::from(*n).max(2)),
        _ => None,
    };
    grafeo_common::verif::set_knob("query_cache.capacity", cap);
    let a = GrafeoDB::with_config(DbConfig::in_memory()).expect("in-memory db");
    grafeo_common::verif::set_knob("query_cache.capacity", None);
    let b = GrafeoDB::with_config(DbConfig::in_memory().without_factorized_execution()).expect("in-memory db");
    let sa = [a.session(), a.session()];
    let sb = b.session();
    // twin C: never an index, flat execution (the configuration switch is only honoured by
    // `execute`, not by `execute_with_params`, so B above is factorized whatever its
    // configuration says); it goes through the plan cache, which the A-vs-B comparison isolates
    let c = GrafeoDB::with_config(DbConfig::in_memory().without_factorized_execution()).expect("in-memory db");
    let sc = c.session();
    let mut m = Model::default();
    let (mut ns, mut es): (Vec<u64>, Vec<u64>) = (Vec::new(), Vec::new());
    let mut findings: Vec<(String, String)> = Vec::new();
    let mut probes: BTreeMap<&'static str, u64> = BTreeMap::new();
    let mut seen_texts: BTreeMap<String, u64> = BTreeMap::new();
    let mut indexed = [false; 3];
    let mut digest = 0u64;
    let mut steps_done = 0;
    let mut data_version = 0u64;
    let mut queries = 0u64;
    for (i, op) in ops.iter().enumerate() {
        match op {
            TOp::CreateNode(l, k, mm, flags) => {
                let label = LABELS[*l as usize % 2];
                let mut props: Vec<(&str, Value)> = Vec::new();
                let mut n = MNode { label: *l % 2, ..Default::default() };
                if flags & 1 == 1 {
                    props.push(("k", Value::Int64(*k)));
                    n.k = Some(*k);
                }
                if flags & 2 == 2 {
                    props.push(("m", Value::Int64(*mm)));
                    n.m = Some(*mm);
                }
                let ia = a.create_node_with_props(&[label], props.clone()).as_u64();
                let ib = b.create_node_with_props(&[label], props.clone()).as_u64();
                let _ = c.create_node_with_props(&[label], props);
                if ia != ib {
                    findings.push(("C10 | harness | ids-diverged".into(), format!("{ia} vs {ib}")));
                    break;
                }
                ns.push(ia);
                m.nodes.insert(ia, n);
                data_version += 1;
            }
            TOp::SetProp(s, k, v) => {
                if let Some(&id) = ns.get(*s) {
                    if let Some(n) = m.nodes.get_mut(&id) {
                        let key = KEYS[*k as usize % 2];
                        a.set_node_property(NodeId::new(id), key, Value::Int64(*v));
                        b.set_node_property(NodeId::new(id), key, Value::Int64(*v));
                        c.set_node_property(NodeId::new(id), key, Value::Int64(*v));
                        if k % 2 == 0 {
                            n.k = Some(*v);
                        } else {
                            n.m = Some(*v);
                        }
                        data_version += 1;
                    }
                }
            }
            TOp::SetStr(s, v) => {
                if let Some(&id) = ns.get(*s) {
                    if let Some(n) = m.nodes.get_mut(&id) {
                        let val = Value::String(STRS[*v as usize % 4].into());
                        a.set_node_property(NodeId::new(id), "s", val.clone());
                        b.set_node_property(NodeId::new(id), "s", val.clone());
                        c.set_node_property(NodeId::new(id), "s", val);
                        n.s = Some(*v % 4);
                        data_version += 1;
                    }
                }
            }
            TOp::RemoveProp(s, k) => {
                if let Some(&id) = ns.get(*s) {
                    if let Some(n) = m.nodes.get_mut(&id) {
                        let key = KEYS[*k as usize % 2];
                        a.remove_node_property(NodeId::new(id), key);
                        b.remove_node_property(NodeId::new(id), key);
                        c.remove_node_property(NodeId::new(id), key);
                        if k % 2 == 0 {
                            n.k = None;
                        } else {
                            n.m = None;
                        }
                        data_version += 1;
                    }
                }
            }
            TOp::DeleteNode(s) => {
                if let Some(&id) = ns.get(*s) {
                    if m.nodes.contains_key(&id) && !m.edges.values().any(|e| e.0 == id || e.1 == id) {
                        a.delete_node(NodeId::new(id));
                        b.delete_node(NodeId::new(id));
                        c.delete_node(NodeId::new(id));
                        m.nodes.remove(&id);
                        data_version += 1;
                    }
                }
            }
            TOp::CreateEdge(x, y, k) => {
                if let (Some(&s), Some(&d)) = (ns.get(*x), ns.get(*y)) {
                    if m.nodes.contains_key(&s) && m.nodes.contains_key(&d) {
                        let ia = a.create_edge_with_props(NodeId::new(s), NodeId::new(d), "R", [("k", Value::Int64(*k))]).as_u64();
                        let ib = b.create_edge_with_props(NodeId::new(s), NodeId::new(d), "R", [("k", Value::Int64(*k))]).as_u64();
                        let _ = c.create_edge_with_props(NodeId::new(s), NodeId::new(d), "R", [("k", Value::Int64(*k))]);
                        if ia != ib {
                            findings.push(("C10 | harness | ids-diverged".into(), format!("{ia} vs {ib}")));
                            break;
                        }
                        es.push(ia);
                        m.edges.insert(ia, (s, d, *k));
                        data_version += 1;
                    }
                }
            }
            TOp::DeleteEdge(s) => {
                if let Some(&id) = es.get(*s) {
                    if m.edges.remove(&id).is_some() {
                        a.delete_edge(EdgeId::new(id));
                        b.delete_edge(EdgeId::new(id));
                        c.delete_edge(EdgeId::new(id));
                        data_version += 1;
                    }
                }
            }
            TOp::CacheCapacity(_) => {}
            TOp::CreateIndex(k) => {
                a.create_property_index(KEYS[*k as usize % 3]);
                indexed[*k as usize % 3] = true;
                *probes.entry("index_created").or_insert(0) += 1;
            }
            TOp::DropIndex(k) => {
                a.drop_property_index(KEYS[*k as usize % 3]);
                indexed[*k as usize % 3] = false;
            }
            TOp::Query(s, q) | TOp::QueryRespaced(s, q) => {
                let spaced = matches!(op, TOp::QueryRespaced(..));
                let t = text(q, spaced);
                let ra = match guarded(|| rows(sa[*s as usize % 2].execute(&t))) {
                    Ok(r) => r,
                    Err(p) => {
                        findings.push((format!("C10 | template={} | panic | {}", qname(q), panic_class(&p)), format!("step {i}: {t}: {p}")));
                        break;
                    }
                };
                let rb = guarded(|| rows(sb.execute_with_params(&t, HashMap::new()))).unwrap_or_else(|p| vec![format!("panic:{p}")]);
                queries += 1;
                if std::env::var("VERIF_DEV_TWIN").is_ok() {
                    eprintln!("TWIN `{t}`: A {ra:?} B {rb:?}");
                }
                // was a plan for this (whitespace-normalised) text cached before the data changed?
                let norm: String = t.split_whitespace().collect::<Vec<_>>().join(" ");
                let warm = seen_texts.get(&norm).copied();
                let rc = guarded(|| rows(sc.execute(&t))).unwrap_or_else(|p| vec![format!("panic:{p}")]);
                if ra != rc && ra == rb {
                    // equal to the cache-free twin, different from the flat one
                    let class = if ra.len() < rc.len() { "rows-missing-in-factorized-run" } else if ra.len() > rc.len() { "rows-added-in-factorized-run" } else { "rows-differ" };
                    let sig = format!("C10 | template={} | factorized-vs-flat | {class}", qname(q));
                    if !findings.iter().any(|(s0, _)| *s0 == sig) {
                        findings.push((sig, format!("step {i}: `{t}`: factorized {ra:?} vs flat {rc:?}")));
                    }
                }
                if let Some(v) = warm {
                    *probes.entry("plan_cache_hit").or_insert(0) += 1;
                    if v != data_version {
                        *probes.entry("plan_cache_hit_after_data_or_index_change").or_insert(0) += 1;
                    }
                }
                seen_texts.insert(norm, data_version);
                if cap.is_some_and(|c| seen_texts.len() as u64 > c / 2) {
                    *probes.entry("plan_cache_over_capacity_texts").or_insert(0) += 1;
                }
                let idx_any = indexed.iter().any(|x| *x);
                let ctx = format!("cache={} | index={}", if warm.is_some() { "warm" } else { "cold" }, if idx_any { "some" } else { "none" });
                if ra != rb {
                    let class = if ra.first().is_some_and(|x| x.starts_with("err")) || rb.first().is_some_and(|x| x.starts_with("err")) {
                        "one-side-errors"
                    } else if ra.len() < rb.len() {
                        "rows-missing-with-index/cache/factorized"
                    } else if ra.len() > rb.len() {
                        "rows-added-with-index/cache/factorized"
                    } else {
                        "rows-differ"
                    };
                    // a query changes nothing: the run goes on after a wrong answer
                    let sig = format!("C10 | template={} | A-vs-B | {class} | {ctx}", qname(q));
                    if !findings.iter().any(|(s0, _)| *s0 == sig) {
                        findings.push((sig, format!("step {i}: `{t}`: A {ra:?} vs B {rb:?}")));
                    }
                } else if let Some(want) = m.answer(q) {
                    if ra != want {
                        let sig = format!("C10 | template={} | both-differ-from-brute-force | {ctx}", qname(q));
                        if !findings.iter().any(|(s0, _)| *s0 == sig) {
                            findings.push((sig, format!("step {i}: `{t}`: got {ra:?}, brute force {want:?}")));
                        }
                    }
                }
                if findings.len() >= 6 {
                    break;
                }
                digest = digest.rotate_left(5) ^ fnv(ra.join("|").as_bytes());
            }
        }
        steps_done = i + 1;
        digest = digest.rotate_left(3) ^ fnv(op.kind().as_bytes());
    }
    ExecResult { findings, probes, steps_done, nontrivial: queries >= 2 && !m.nodes.is_empty(), digest }
}

fn gen_q(rng: &mut Prng) -> Q {
    let l = if rng.chance(1, 2) { Some(rng.below(2) as u8) } else { None };
    let c = rng.below(5) as i64;
    match rng.below(14) {
        0 | 1 => Q::Eq(l, rng.below(2) as u8, c),
        2 | 3 => Q::Cmp(l, rng.below(2) as u8, rng.below(4) as u8, c),
        4 => {
            if rng.chance(1, 2) {
                Q::Between(rng.below(2) as u8, c, c + rng.below(4) as i64)
            } else {
                Q::BetweenForm(rng.below(2) as u8, c, c + rng.below(4) as i64, rng.below(4) as u8)
            }
        }
        5 => Q::And(0, c, rng.below(5) as i64),
        6 => Q::Or(0, c, rng.below(5) as i64),
        7 => Q::EqFloat(rng.below(2) as u8, c),
        8 | 9 => Q::StrEq(rng.below(4) as u8),
        10 => Q::EdgeEq(c),
        11 => Q::Hop2,
        12 => Q::Hop3,
        _ => Q::Count(l),
    }
}

pub fn generate(rng: &mut Prng, thorough: bool) -> Vec<TOp> {
    let len = rng.range(6, if thorough { 70 } else { 36 }) as usize;
    // a small pool of query texts that are executed repeatedly (cache warm) between changes
    let pool: Vec<Q> = (0..rng.range(2, 5)).map(|_| gen_q(rng)).collect();
    let (mut nn, mut ne) = (0usize, 0usize);
    let mut pairs: Vec<(usize, usize)> = Vec::new();
    let mut ops = Vec::new();
    if rng.chance(1, 2) {
        // QueryCache::new(n) gives each of its two levels n/2 entries
        ops.push(TOp::CacheCapacity(*rng.pick(&[2u8, 4, 6])));
    }
    while ops.len() < len {
        let op = match rng.below(24) {
            0..=3 => {
                nn += 1;
                TOp::CreateNode(rng.below(2) as u8, rng.below(5) as i64, rng.below(5) as i64, rng.below(4) as u8)
            }
            4 | 5 if nn > 0 => TOp::SetProp(rng.usize(nn), rng.below(2) as u8, rng.below(5) as i64),
            6 if nn > 0 => TOp::SetStr(rng.usize(nn), rng.below(4) as u8),
            7 if nn > 0 => TOp::RemoveProp(rng.usize(nn), rng.below(2) as u8),
            8 if nn > 0 => TOp::DeleteNode(rng.usize(nn)),
            9 | 10 if nn > 0 => {
                ne += 1;
                // multigraph shapes on purpose: a third of the edges repeat the endpoints of an
                // earlier edge (parallel edges), some continue an earlier edge (paths), some loop
                let (x, y) = match (rng.below(6), pairs.is_empty()) {
                    (0 | 1, false) => *rng.pick(&pairs),
                    (2, false) => (rng.pick(&pairs).1, rng.usize(nn)),
                    (3, _) => {
                        let x = rng.usize(nn);
                        (x, x)
                    }
                    _ => (rng.usize(nn), rng.usize(nn)),
                };
                pairs.push((x, y));
                TOp::CreateEdge(x, y, rng.below(5) as i64)
            }
            11 if ne > 0 => TOp::DeleteEdge(rng.usize(ne)),
            12 | 13 => TOp::CreateIndex(rng.below(3) as u8),
            14 => TOp::DropIndex(rng.below(3) as u8),
            15..=20 => TOp::Query(rng.below(2) as u8, rng.pick(&pool).clone()),
            21 => TOp::QueryRespaced(rng.below(2) as u8, rng.pick(&pool).clone()),
            _ => TOp::Query(rng.below(2) as u8, gen_q(rng)),
        };
        ops.push(op);
    }
    ops
}

fn run_guarded(ops: &[TOp]) -> ExecResult {
    match guarded(|| exec(ops)) {
        Ok(r) => r,
        Err(msg) => ExecResult { findings: vec![(format!("C10 | panic | {}", panic_class(&msg)), msg)], probes: BTreeMap::new(), steps_done: 0, nontrivial: true, digest: 0 },
    }
}

pub fn replay_doc(ops: &[TOp]) -> serde_json::Value {
    json!({"engine": "TWIN", "ops": ops, "schedule": "total order of the listed operations on both databases", "faults": []})
}

pub fn run_one(seed: u64, thorough: bool) -> RunOut {
    let mut rng = Prng::new(seed);
    let ops = generate(&mut rng, thorough);
    let res = run_guarded(&ops);
    let mut out = RunOut::default();
    out.hash = fnv(&serde_json::to_vec(&ops).unwrap());
    out.shape = fnv(ops.iter().map(|o| o.kind()).collect::<Vec<_>>().join(",").as_bytes());
    out.nontrivial = res.nontrivial;
    out.steps = res.steps_done as u64;
    out.probes = res.probes;
    out.digest = res.digest;
    if ops.len() <= 12 {
        out.sample = Some(json!({"seed": seed, "ops": ops}));
    }
    for (sig, detail) in res.findings {
        out.findings.push(Finding { property: "C10".into(), signature: sig, detail, replay: replay_doc(&ops) });
    }
    out
}

pub fn minimise(f: &Finding) -> Finding {
    let ops: Vec<TOp> = serde_json::from_value(f.replay["ops"].clone()).unwrap();
    let sig = f.signature.clone();
    let mut fails = |cand: &[TOp]| run_guarded(cand).findings.iter().any(|(s, _)| *s == sig);
    let small = if fails(&ops) { crate::fw::ddmin(&ops, &mut fails, 400) } else { ops.clone() };
    let res = run_guarded(&small);
    let detail = res.findings.iter().find(|(s, _)| *s == sig).map(|(_, d)| d.clone()).unwrap_or_else(|| f.detail.clone());
    Finding { property: f.property.clone(), signature: sig, detail, replay: replay_doc(&small) }
}

pub fn replay(doc: &serde_json::Value) -> Vec<(String, String)> {
    let ops: Vec<TOp> = serde_json::from_value(doc["ops"].clone()).unwrap();
    for (i, o) in ops.iter().enumerate() {
        println!("  {i}: {o:?}");
    }
    run_guarded(&ops).findings
}
