//! Development aid: run query lines from stdin against a fresh in-memory database.
//! Line prefixes: `s1>` / `s2>` choose a session, `begin`/`commit`/`rollback`, `sparql:`.
use std::io::BufRead;

use grafeo_engine::GrafeoDB;

pub fn run() -> i32 {
    let db = GrafeoDB::new_in_memory();
    let mut sessions = vec![db.session(), db.session(), db.session()];
    for line in std::io::stdin().lock().lines() {
        let line = line.unwrap();
        let line = line.trim();
        if line.is_empty() || line.starts_with('#') {
            continue;
        }
        let (si, q) = if let Some(r) = line.strip_prefix("s1>") {
            (1, r.trim())
        } else if let Some(r) = line.strip_prefix("s2>") {
            (2, r.trim())
        } else {
            (0, line)
        };
        let s = &mut sessions[si];
        print!("[s{si}] {q}\n    => ");
        match q {
            "begin" => println!("{:?}", s.begin_tx()),
            "commit" => println!("{:?}", s.commit()),
            "rollback" => println!("{:?}", s.rollback()),
            "counts" => println!("nodes={} edges={}", db.node_count(), db.edge_count()),
            _ => {
                let r = if let Some(sp) = q.strip_prefix("sparql:") {
                    s.execute_sparql(sp.trim())
                } else if let Some(cy) = q.strip_prefix("cypher:") {
                    s.execute_cypher(cy.trim())
                } else if let Some(cy) = q.strip_prefix("gremlin:") {
                    s.execute_gremlin(cy.trim())
                } else if let Some(cy) = q.strip_prefix("graphql:") {
                    s.execute_graphql(cy.trim())
                } else if let Some(cy) = q.strip_prefix("params:") {
                    s.execute_with_params(cy.trim(), std::collections::HashMap::new())
                } else {
                    s.execute(q)
                };
                match r {
                    Ok(res) => {
                        println!("cols={:?} rows={}", res.columns, res.rows.len());
                        for row in res.rows.iter().take(12) {
                            println!("       {row:?}");
                        }
                    }
                    Err(e) => println!("ERR {e}"),
                }
            }
        }
    }
    0
}
