//! SCHED — 2–3 simulated threads, each issuing a short operation list on shared entities,
//! run under shuttle with every `parking_lot` acquire/release (and every hooked atomic /
//! explicit yield point) as a scheduling point (C20; the multi-threaded layers of C03, C13).
//!
//! Workload choices are drawn from the harness PRNG *before* the threads start; only the
//! interleaving comes from the scheduler, and it is recorded step by step.

use std::collections::{BTreeMap, BTreeSet};
use std::sync::Arc;
use std::sync::atomic::{AtomicU64, Ordering};

use grafeo_common::types::{EdgeId, NodeId, PropertyKey, TxId, Value};
use grafeo_common::utils::error::{Error, TransactionError};
use grafeo_core::graph::Direction;
use grafeo_core::graph::lpg::LpgStore;
use grafeo_core::graph::rdf::{RdfStore, Term, Triple, TriplePattern};
use grafeo_engine::transaction::{EntityId, TransactionManager};
use serde::{Deserialize, Serialize};
use serde_json::json;
use shuttle::scheduler::{PctScheduler, RandomScheduler, ReplayScheduler, Scheduler};

use crate::fw::{Finding, RunOut, guarded, panic_class};
use crate::prng::{Prng, fnv};
use crate::simlock::{self, Recording};

const LABELS: [&str; 3] = ["A", "B", "C"];
const KEYS: [&str; 2] = ["k", "m"];

#[derive(Clone, Copy, Debug, PartialEq, Eq, Serialize, Deserialize)]
pub enum Family {
    /// creation / edge deletion / un-indexed property writes / reads only: the operations
    /// for which the pinned tree is expected to be sequentially consistent
    LpgCore,
    Lpg,
    Rdf,
    Txm,
    /// BufferManager grants against a budget that fits k-1 of k requests
    Buffer,
    /// Catalog: name↔id dictionaries and index definitions
    Catalog,
    /// QueryCache (two LRU caches + counters), capacity 2
    Cache,
    /// WalManager: log ∥ log ∥ rotate ∥ sync on one directory, rotation every few records
    Wal,
    /// one `GrafeoDB`, one `Session` per simulated thread: direct API calls, auto-commit
    /// statements and whole transactions (begin, INSERT, commit) at the same time
    Db,
}

#[derive(Clone, Debug, PartialEq, Eq, Serialize, Deserialize)]
pub enum SOp {
    // --- LpgStore ---
    CreateNode(u8),
    /// `delete_node_edges` (the documented first half of a detach delete)
    DeleteNodeEdges(usize),
    /// plain `delete_node`
    DetachDelete(usize),
    AddLabel(usize, u8),
    RemoveLabel(usize, u8),
    SetProp(usize, u8, i64),
    RemoveProp(usize, u8),
    CreateEdge(usize, usize),
    DeleteEdge(usize),
    ScanLabel(u8),
    FindProp(u8, i64),
    ComputeStats,
    // --- RdfStore --- (triple index into the universe)
    RdfInsert(u8),
    RdfRemove(u8),
    RdfFind(u8),
    // --- TransactionManager --- one op = begin, write all entities, commit
    TxWriteCommit(Vec<u8>),
    TxGc,
    // --- BufferManager ---
    BufAlloc(usize),
    /// drops the oldest grant this thread still holds
    BufRelease,
    /// resizes the newest grant this thread holds
    BufResize(usize),
    // --- Catalog --- (name index; 0 = label, 1 = property key, 2 = edge type dictionary)
    CatGetOrCreate(u8, u8),
    CatCreateIndex(u8, u8),
    CatDropIndex(u8),
    CatRead(u8),
    // --- QueryCache --- (which cache: 0 parsed / 1 optimized, key)
    CachePut(u8, u8),
    CacheGet(u8, u8),
    CacheInvalidate(u8),
    CacheClear,
    CacheStats,
    // --- WalManager ---
    WalLog,
    WalSync,
    WalRotate,
    // --- GrafeoDB / Session --- (label, value)
    DbCreateNode(u8),
    SessCreateNode(u8),
    SessInsertQ(u8, i64),
    /// begin; INSERT; [INSERT]; commit  (one operation of the thread)
    SessTxInsertCommit(u8, i64, bool),
    /// begin; INSERT; rollback
    SessTxInsertRollback(u8, i64),
    SessSetPropQ(usize, i64),
    SessCreateEdge(usize, usize),
    SessCountQ,
}

impl SOp {
    pub fn kind(&self) -> &'static str {
        match self {
            SOp::CreateNode(_) => "create_node",
            SOp::DeleteNodeEdges(_) => "delete_node_edges",
            SOp::DetachDelete(_) => "delete_node",
            SOp::AddLabel(..) => "add_label",
            SOp::RemoveLabel(..) => "remove_label",
            SOp::SetProp(..) => "set_property",
            SOp::RemoveProp(..) => "remove_property",
            SOp::CreateEdge(..) => "create_edge",
            SOp::DeleteEdge(_) => "delete_edge",
            SOp::ScanLabel(_) => "scan_label",
            SOp::FindProp(..) => "find_by_property",
            SOp::ComputeStats => "compute_statistics",
            SOp::RdfInsert(_) => "rdf_insert",
            SOp::RdfRemove(_) => "rdf_remove",
            SOp::RdfFind(_) => "rdf_find",
            SOp::TxWriteCommit(_) => "tx_write_commit",
            SOp::TxGc => "tx_gc",
            SOp::BufAlloc(_) => "try_allocate",
            SOp::BufRelease => "grant_drop",
            SOp::BufResize(_) => "grant_resize",
            SOp::CatGetOrCreate(..) => "get_or_create",
            SOp::CatCreateIndex(..) => "create_index",
            SOp::CatDropIndex(_) => "drop_index",
            SOp::CatRead(_) => "indexes_for_label",
            SOp::CachePut(..) => "cache_put",
            SOp::CacheGet(..) => "cache_get",
            SOp::CacheInvalidate(_) => "cache_invalidate",
            SOp::CacheClear => "cache_clear",
            SOp::CacheStats => "cache_stats",
            SOp::WalLog => "wal_log",
            SOp::WalSync => "wal_sync",
            SOp::WalRotate => "wal_rotate",
            SOp::DbCreateNode(_) => "db.create_node",
            SOp::SessCreateNode(_) => "session.create_node",
            SOp::SessInsertQ(..) => "INSERT",
            SOp::SessTxInsertCommit(..) => "begin+INSERT+commit",
            SOp::SessTxInsertRollback(..) => "begin+INSERT+rollback",
            SOp::SessSetPropQ(..) => "SET-property",
            SOp::SessCreateEdge(..) => "session.create_edge",
            SOp::SessCountQ => "count-query",
        }
    }
    fn is_read(&self) -> bool {
        matches!(self, SOp::ScanLabel(_) | SOp::FindProp(..) | SOp::RdfFind(_) | SOp::ComputeStats | SOp::TxGc | SOp::CatRead(_) | SOp::CacheStats | SOp::SessCountQ)
    }
}

#[derive(Clone, Debug, Serialize, Deserialize)]
pub struct Scenario {
    pub family: Family,
    /// LPG: number of pre-created nodes / edges (edge i connects node i%n → (i+1)%n)
    pub pre_nodes: usize,
    pub pre_edges: usize,
    /// LPG: keys (indices into KEYS) that carry a property index
    pub indexed: Vec<u8>,
    /// RDF: triples (universe indices) inserted before the threads start
    pub pre_triples: Vec<u8>,
    pub threads: Vec<Vec<SOp>>,
}

#[derive(Clone, Copy, Debug, PartialEq, Eq, Serialize, Deserialize)]
pub enum SchedKind {
    Random,
    Pct(usize),
}

fn triple(i: u8) -> Triple {
    let s = Term::iri(format!("http://s{}", i & 1));
    let p = Term::iri(format!("http://p{}", (i >> 1) & 1));
    let o = if (i >> 2) & 1 == 0 { Term::literal("o0") } else { Term::iri("http://o1") };
    Triple::new(s, p, o)
}

fn fmt_triple(t: &Triple) -> String {
    format!("{:?}|{:?}|{:?}", t.subject(), t.predicate(), t.object())
}

/// The shared state a scenario runs against.
enum World {
    Lpg { store: LpgStore, nodes: Vec<NodeId>, edges: Vec<EdgeId> },
    Rdf { store: RdfStore },
    Txm { mgr: TransactionManager, clock: AtomicU64 },
    Buf {
        mgr: Arc<grafeo_common::memory::buffer::BufferManager>,
        grants: Vec<std::sync::Mutex<Vec<grafeo_common::memory::buffer::MemoryGrant>>>,
        max_seen: AtomicU64,
        hard_limit: usize,
    },
    Cat { cat: grafeo_engine::Catalog },
    Cache { cache: grafeo_engine::query::QueryCache, plans: Vec<grafeo_engine::query::LogicalPlan>, over: AtomicU64 },
    Wal { wal: grafeo_adapters::storage::wal::WalManager, dir: std::path::PathBuf },
    Db { db: grafeo_engine::GrafeoDB, sessions: Vec<std::sync::Mutex<grafeo_engine::Session>>, nodes: Vec<NodeId> },
}

const CAT_NAMES: [&str; 3] = ["X", "Y", "Z"];
const CACHE_CAP: usize = 2;
static WAL_DIR_SEQ: AtomicU64 = AtomicU64::new(0);

fn cache_key(k: u8) -> grafeo_engine::query::CacheKey {
    grafeo_engine::query::CacheKey::new(format!("MATCH (n:K{}) RETURN n", k % 3), grafeo_engine::query::QueryLanguage::Gql)
}

fn wal_record(t: usize, j: usize) -> grafeo_adapters::storage::wal::WalRecord {
    grafeo_adapters::storage::wal::WalRecord::CreateNode { id: NodeId::new((t * 16 + j) as u64), labels: vec![format!("T{t}")] }
}

fn setup(sc: &Scenario) -> World {
    match sc.family {
        Family::Lpg | Family::LpgCore => {
            let store = LpgStore::new();
            for k in &sc.indexed {
                store.create_property_index(KEYS[*k as usize % 2]);
            }
            let mut nodes = Vec::new();
            for i in 0..sc.pre_nodes {
                let id = store.create_node(&[LABELS[i % 3]]);
                store.set_node_property(id, KEYS[0], Value::Int64((i % 2) as i64));
                nodes.push(id);
            }
            let mut edges = Vec::new();
            if sc.pre_nodes > 0 {
                for i in 0..sc.pre_edges {
                    edges.push(store.create_edge(nodes[i % sc.pre_nodes], nodes[(i + 1) % sc.pre_nodes], "R"));
                }
            }
            World::Lpg { store, nodes, edges }
        }
        Family::Rdf => {
            let store = RdfStore::new();
            for t in &sc.pre_triples {
                store.insert(triple(*t));
            }
            World::Rdf { store }
        }
        Family::Txm => World::Txm { mgr: TransactionManager::new(), clock: AtomicU64::new(0) },
        Family::Buffer => {
            let mgr = grafeo_common::memory::buffer::BufferManager::with_budget(100);
            World::Buf {
                mgr,
                grants: (0..sc.threads.len()).map(|_| std::sync::Mutex::new(Vec::new())).collect(),
                max_seen: AtomicU64::new(0),
                hard_limit: 95,
            }
        }
        Family::Catalog => {
            let cat = grafeo_engine::Catalog::new();
            // labels / keys the index operations refer to exist beforehand
            for i in 0..2 {
                cat.get_or_create_label(&format!("L{i}"));
                cat.get_or_create_property_key(&format!("p{i}"));
            }
            for i in 0..sc.pre_edges.min(2) {
                let (l, k) = (cat.get_label_id(&format!("L{i}")).unwrap(), cat.get_property_key_id("p0").unwrap());
                cat.create_index(l, k, grafeo_engine::IndexType::Hash);
            }
            World::Cat { cat }
        }
        Family::Cache => {
            let plans = (0..6)
                .map(|i| grafeo_engine::query::translate_gql(&format!("MATCH (n:P{i}) RETURN n")).expect("plan"))
                .collect();
            World::Cache { cache: grafeo_engine::query::QueryCache::new(CACHE_CAP), plans, over: AtomicU64::new(0) }
        }
        Family::Wal => {
            let dir = std::path::PathBuf::from(format!("/dev/shm/grafeo-sim/{}/schedwal-{}", std::process::id(), WAL_DIR_SEQ.fetch_add(1, Ordering::SeqCst)));
            let _ = std::fs::remove_dir_all(&dir);
            std::fs::create_dir_all(&dir).expect("wal dir");
            let cfg = grafeo_adapters::storage::wal::WalConfig {
                durability: grafeo_adapters::storage::wal::DurabilityMode::NoSync,
                // a record of this workload frames to ~14 bytes: rotation after every
                // `pre_nodes` records
                max_log_size: (sc.pre_nodes as u64) * 14,
                compression: false,
            };
            let wal = grafeo_adapters::storage::wal::WalManager::with_config(&dir, cfg).expect("wal open");
            for i in 0..sc.pre_edges {
                wal.log(&wal_record(15, i)).expect("pre log");
            }
            World::Wal { wal, dir }
        }
        Family::Db => {
            let db = grafeo_engine::GrafeoDB::new_in_memory();
            let mut nodes = Vec::new();
            for i in 0..sc.pre_nodes {
                nodes.push(db.create_node(&[LABELS[i % 3]]));
            }
            // one session per thread; a thread only ever locks its own
            let sessions = (0..sc.threads.len()).map(|_| std::sync::Mutex::new(db.session())).collect();
            World::Db { db, sessions, nodes }
        }
    }
}

/// Result of one operation, canonical.
fn apply(w: &World, t: usize, j: usize, op: &SOp, created: &std::sync::Mutex<BTreeMap<u64, String>>) -> String {
    match (w, op) {
        (World::Lpg { store, .. }, SOp::CreateNode(l)) => {
            let id = store.create_node(&[LABELS[*l as usize % 3]]);
            created.lock().unwrap().insert(id.as_u64(), format!("N{t}.{j}"));
            format!("id:{}", id.as_u64())
        }
        (World::Lpg { store, nodes, .. }, SOp::DetachDelete(s)) => {
            let id = nodes[*s % nodes.len()];
            format!("{}", store.delete_node(id))
        }
        (World::Lpg { store, nodes, .. }, SOp::DeleteNodeEdges(s)) => {
            store.delete_node_edges(nodes[*s % nodes.len()]);
            "()".into()
        }
        (World::Lpg { store, nodes, .. }, SOp::AddLabel(s, l)) => {
            format!("{}", store.add_label(nodes[*s % nodes.len()], LABELS[*l as usize % 3]))
        }
        (World::Lpg { store, nodes, .. }, SOp::RemoveLabel(s, l)) => {
            format!("{}", store.remove_label(nodes[*s % nodes.len()], LABELS[*l as usize % 3]))
        }
        (World::Lpg { store, nodes, .. }, SOp::SetProp(s, k, v)) => {
            store.set_node_property(nodes[*s % nodes.len()], KEYS[*k as usize % 2], Value::Int64(*v));
            "()".into()
        }
        (World::Lpg { store, nodes, .. }, SOp::RemoveProp(s, k)) => {
            format!("{:?}", store.remove_node_property(nodes[*s % nodes.len()], KEYS[*k as usize % 2]).map(|v| format!("{v:?}")))
        }
        (World::Lpg { store, nodes, .. }, SOp::CreateEdge(a, b)) => {
            let id = store.create_edge(nodes[*a % nodes.len()], nodes[*b % nodes.len()], "S");
            created.lock().unwrap().insert(id.as_u64() | (1 << 63), format!("E{t}.{j}"));
            format!("eid:{}", id.as_u64())
        }
        (World::Lpg { store, edges, .. }, SOp::DeleteEdge(s)) => {
            if edges.is_empty() {
                "n/a".into()
            } else {
                format!("{}", store.delete_edge(edges[*s % edges.len()]))
            }
        }
        (World::Lpg { store, .. }, SOp::ScanLabel(l)) => {
            let _ = store.nodes_by_label(LABELS[*l as usize % 3]);
            "read".into()
        }
        (World::Lpg { store, .. }, SOp::FindProp(k, v)) => {
            let _ = store.find_nodes_by_property(KEYS[*k as usize % 2], &Value::Int64(*v));
            "read".into()
        }
        (World::Lpg { store, .. }, SOp::ComputeStats) => {
            store.compute_statistics();
            "read".into()
        }
        (World::Rdf { store }, SOp::RdfInsert(i)) => format!("{}", store.insert(triple(*i))),
        (World::Rdf { store }, SOp::RdfRemove(i)) => format!("{}", store.remove(&triple(*i))),
        (World::Rdf { store }, SOp::RdfFind(i)) => {
            let t = triple(*i);
            let _ = store.find(&TriplePattern { subject: Some(t.subject().clone()), predicate: None, object: None });
            "read".into()
        }
        (World::Txm { mgr, clock }, SOp::TxWriteCommit(ents)) => {
            let b_inv = clock.fetch_add(1, Ordering::SeqCst);
            let tx = mgr.begin();
            let b_ret = clock.fetch_add(1, Ordering::SeqCst);
            for e in ents {
                let _ = mgr.record_write(tx, EntityId::Node(NodeId::new(u64::from(*e))));
            }
            let c_inv = clock.fetch_add(1, Ordering::SeqCst);
            let r = mgr.commit(tx);
            let c_ret = clock.fetch_add(1, Ordering::SeqCst);
            let (st, ep) = match r {
                Ok(ep) => ("ok".to_string(), ep.as_u64()),
                Err(Error::Transaction(TransactionError::WriteConflict(_))) => ("conflict".to_string(), 0),
                Err(err) => (format!("other({})", err.to_string().replace(':', ";")), 0),
            };
            format!("tx:{}:{b_inv}:{b_ret}:{c_inv}:{c_ret}:{st}:{ep}", tx.as_u64())
        }
        (World::Txm { mgr, .. }, SOp::TxGc) => {
            let _ = mgr.gc();
            "read".into()
        }
        (World::Buf { mgr, grants, max_seen, .. }, op @ (SOp::BufAlloc(_) | SOp::BufRelease | SOp::BufResize(_))) => {
            use grafeo_common::memory::buffer::MemoryRegion;
            let r = match op {
                SOp::BufAlloc(size) => match mgr.try_allocate(*size, MemoryRegion::ExecutionBuffers) {
                    Some(g) => {
                        grants[t].lock().unwrap().push(g);
                        "granted".to_string()
                    }
                    None => "refused".to_string(),
                },
                SOp::BufRelease => {
                    let g = {
                        let mut v = grants[t].lock().unwrap();
                        if v.is_empty() { None } else { Some(v.remove(0)) }
                    };
                    match g {
                        Some(g) => {
                            drop(g);
                            "released".to_string()
                        }
                        None => "nothing".to_string(),
                    }
                }
                SOp::BufResize(size) => {
                    let g = grants[t].lock().unwrap().pop();
                    match g {
                        Some(mut g) => {
                            let ok = g.resize(*size);
                            grants[t].lock().unwrap().push(g);
                            format!("resize:{ok}")
                        }
                        None => "nothing".to_string(),
                    }
                }
                _ => unreachable!(),
            };
            // the accounting is sampled inside every thread after every operation
            max_seen.fetch_max(mgr.allocated() as u64, Ordering::SeqCst);
            r
        }
        (World::Cat { cat }, SOp::CatGetOrCreate(dict, n)) => {
            let name = CAT_NAMES[*n as usize % 3];
            match dict % 3 {
                0 => format!("lid:{}", cat.get_or_create_label(name).as_u32()),
                1 => format!("pid:{}", cat.get_or_create_property_key(name).as_u32()),
                _ => format!("tid:{}", cat.get_or_create_edge_type(name).as_u32()),
            }
        }
        (World::Cat { cat }, SOp::CatCreateIndex(l, k)) => {
            let (l, k) = (cat.get_label_id(&format!("L{}", l % 2)).unwrap(), cat.get_property_key_id(&format!("p{}", k % 2)).unwrap());
            format!("iid:{}", cat.create_index(l, k, grafeo_engine::IndexType::Hash).as_u32())
        }
        (World::Cat { cat }, SOp::CatDropIndex(i)) => format!("{}", cat.drop_index(grafeo_common::types::IndexId::new(u32::from(*i % 4)))),
        (World::Cat { cat }, SOp::CatRead(l)) => {
            let _ = cat.indexes_for_label(cat.get_label_id(&format!("L{}", l % 2)).unwrap());
            "read".into()
        }
        (World::Cache { cache, plans, over }, op @ (SOp::CachePut(..) | SOp::CacheGet(..) | SOp::CacheInvalidate(_) | SOp::CacheClear | SOp::CacheStats)) => {
            let plan_name = |p: &grafeo_engine::query::LogicalPlan| -> String {
                let d = format!("{p:?}");
                plans.iter().position(|q| format!("{q:?}") == d).map_or("unknown-plan".to_string(), |i| format!("plan{i}"))
            };
            let r = match op {
                SOp::CachePut(which, k) => {
                    // the value identifies the writer: thread parity + key
                    let plan = plans[(usize::from(*k % 3) * 2 + t % 2) % plans.len()].clone();
                    if which % 2 == 0 { cache.put_parsed(cache_key(*k), plan) } else { cache.put_optimized(cache_key(*k), plan) }
                    "()".to_string()
                }
                SOp::CacheGet(which, k) => {
                    let r = if which % 2 == 0 { cache.get_parsed(&cache_key(*k)) } else { cache.get_optimized(&cache_key(*k)) };
                    r.map_or("miss".to_string(), |p| format!("hit:{}", plan_name(&p)))
                }
                SOp::CacheInvalidate(k) => {
                    cache.invalidate(&cache_key(*k));
                    "()".to_string()
                }
                SOp::CacheClear => {
                    cache.clear();
                    "()".to_string()
                }
                _ => "read".to_string(),
            };
            let st = cache.stats();
            if st.parsed_size > CACHE_CAP || st.optimized_size > CACHE_CAP {
                over.fetch_add(1, Ordering::SeqCst);
            }
            r
        }
        (World::Db { db, sessions, nodes }, op) => {
            let mut sess = sessions[t].lock().unwrap();
            let first_id = |r: Result<grafeo_engine::database::QueryResult, Error>| -> Result<u64, String> {
                match r {
                    Ok(res) => match res.rows.first().and_then(|row| row.first()) {
                        Some(Value::Int64(i)) => Ok(*i as u64),
                        other => Err(format!("no-id({other:?})")),
                    },
                    Err(e) => Err(format!("err({})", e.to_string().replace(':', ";"))),
                }
            };
            match op {
                SOp::DbCreateNode(l) => {
                    let id = db.create_node(&[LABELS[*l as usize % 3]]);
                    if let Some(old) = created.lock().unwrap().insert(id.as_u64(), format!("N{t}.{j}")) {
                        return format!("id:{} (already handed out to {old})", id.as_u64());
                    }
                    format!("id:{}", id.as_u64())
                }
                SOp::SessCreateNode(l) => {
                    let id = sess.create_node(&[LABELS[*l as usize % 3]]);
                    if let Some(old) = created.lock().unwrap().insert(id.as_u64(), format!("N{t}.{j}")) {
                        return format!("id:{} (already handed out to {old})", id.as_u64());
                    }
                    format!("id:{}", id.as_u64())
                }
                SOp::SessInsertQ(l, v) => match first_id(sess.execute(&format!("INSERT (:{} {{k: {v}}})", LABELS[*l as usize % 3]))) {
                    Ok(id) => {
                        if let Some(old) = created.lock().unwrap().insert(id, format!("N{t}.{j}")) {
                            return format!("id:{id} (already handed out to {old})");
                        }
                        format!("id:{id}")
                    }
                    Err(e) => e,
                },
                SOp::SessTxInsertCommit(l, v, two) => {
                    if let Err(e) = sess.begin_tx() {
                        return format!("begin-err({})", e.to_string().replace(':', ";"));
                    }
                    let mut out = Vec::new();
                    for x in 0..(if *two { 2 } else { 1 }) {
                        match first_id(sess.execute(&format!("INSERT (:{} {{k: {}}})", LABELS[*l as usize % 3], v + x))) {
                            Ok(id) => {
                                if let Some(old) = created.lock().unwrap().insert(id, format!("N{t}.{j}.{x}")) {
                                    out.push(format!("id:{id} (already handed out to {old})"));
                                } else {
                                    out.push("created".to_string());
                                }
                            }
                            Err(e) => out.push(e),
                        }
                    }
                    out.push(match sess.commit() {
                        Ok(()) => "committed".to_string(),
                        Err(e) => format!("commit-err({})", e.to_string().replace(':', ";")),
                    });
                    out.join(",")
                }
                SOp::SessTxInsertRollback(l, v) => {
                    if let Err(e) = sess.begin_tx() {
                        return format!("begin-err({})", e.to_string().replace(':', ";"));
                    }
                    let r = first_id(sess.execute(&format!("INSERT (:{} {{k: {v}}})", LABELS[*l as usize % 3]))).map(|_| "created".to_string()).unwrap_or_else(|e| e);
                    let rb = match sess.rollback() {
                        Ok(()) => "rolled-back".to_string(),
                        Err(e) => format!("rollback-err({})", e.to_string().replace(':', ";")),
                    };
                    format!("{r},{rb}")
                }
                SOp::SessSetPropQ(s, v) => {
                    if nodes.is_empty() {
                        return "n/a".into();
                    }
                    let id = nodes[*s % nodes.len()].as_u64();
                    match sess.execute(&format!("MATCH (n) WHERE id(n) = {id} SET n.m = {v}")) {
                        Ok(_) => "()".into(),
                        Err(e) => format!("err({})", e.to_string().replace(':', ";")),
                    }
                }
                SOp::SessCreateEdge(a, b) => {
                    if nodes.is_empty() {
                        return "n/a".into();
                    }
                    let id = sess.create_edge(nodes[*a % nodes.len()], nodes[*b % nodes.len()], "S");
                    if let Some(old) = created.lock().unwrap().insert(id.as_u64() | (1 << 63), format!("E{t}.{j}")) {
                        return format!("eid:{} (already handed out to {old})", id.as_u64());
                    }
                    format!("eid:{}", id.as_u64())
                }
                SOp::SessCountQ => {
                    let _ = sess.execute("MATCH (n) RETURN count(n)");
                    "read".into()
                }
                _ => "n/a".into(),
            }
        }
        (World::Wal { wal, .. }, SOp::WalLog) => match wal.log(&wal_record(t, j)) {
            Ok(()) => "ok".into(),
            Err(e) => format!("err({})", e.to_string().replace(':', ";")),
        },
        (World::Wal { wal, .. }, SOp::WalSync) => match wal.sync() {
            Ok(()) => "ok".into(),
            Err(e) => format!("err({})", e.to_string().replace(':', ";")),
        },
        (World::Wal { wal, .. }, SOp::WalRotate) => match wal.rotate() {
            Ok(()) => "ok".into(),
            Err(e) => format!("err({})", e.to_string().replace(':', ";")),
        },
        _ => "n/a".into(),
    }
}

/// Canonical final state + cross-structure invariants (violations returned separately).
fn final_dump(w: &World, created: &BTreeMap<u64, String>) -> (String, Vec<(String, String)>) {
    let mut inv: Vec<(String, String)> = Vec::new();
    match w {
        World::Lpg { store, nodes, .. } => {
            let name = |id: u64, edge: bool| -> String {
                let key = if edge { id | (1 << 63) } else { id };
                created.get(&key).cloned().unwrap_or_else(|| format!("{}{id}", if edge { "e" } else { "n" }))
            };
            let ids = store.node_ids();
            let mut out = Vec::new();
            let mut live: BTreeSet<u64> = BTreeSet::new();
            for id in &ids {
                live.insert(id.as_u64());
                if let Some(n) = store.get_node(*id) {
                    let mut labels: Vec<String> = n.labels.iter().map(|l| l.to_string()).collect();
                    labels.sort();
                    let props: Vec<String> = n.properties.iter().map(|(k, v)| format!("{}={v:?}", k.as_str())).collect();
                    out.push(format!("{}[{}]{{{}}}", name(id.as_u64(), false), labels.join(","), props.join(",")));
                } else {
                    inv.push(("node_ids-vs-get_node".into(), format!("node {} listed but get_node is None", id.as_u64())));
                }
            }
            out.sort();
            let mut eout = Vec::new();
            let all_edges: Vec<_> = store.all_edges().collect();
            for e in &all_edges {
                eout.push(format!("{}:{}->{}:{}", name(e.id.as_u64(), true), name(e.src.as_u64(), false), name(e.dst.as_u64(), false), e.edge_type));
            }
            eout.sort();
            if store.node_count() != ids.len() {
                inv.push(("node_count-vs-enumeration".into(), format!("{} vs {}", store.node_count(), ids.len())));
            }
            if store.edge_count() != all_edges.len() {
                inv.push(("edge_count-vs-enumeration".into(), format!("{} vs {}", store.edge_count(), all_edges.len())));
            }
            // I1: label index agrees with node labels
            for l in LABELS {
                let via_index: BTreeSet<u64> = store.nodes_by_label(l).iter().map(|n| n.as_u64()).collect();
                let via_nodes: BTreeSet<u64> = ids
                    .iter()
                    .filter(|id| store.get_node(**id).is_some_and(|n| n.labels.iter().any(|x| x.as_str() == l)))
                    .map(|n| n.as_u64())
                    .collect();
                if via_index != via_nodes {
                    inv.push(("label_index-vs-node_labels".into(), format!("{l}: index {via_index:?} vs nodes {via_nodes:?}")));
                }
            }
            // I2: property index agrees with the stored values
            for k in KEYS {
                if !store.has_property_index(k) {
                    continue;
                }
                for v in -1..6i64 {
                    let via_index: BTreeSet<u64> = store.find_nodes_by_property(k, &Value::Int64(v)).iter().map(|n| n.as_u64()).collect();
                    let via_scan: BTreeSet<u64> = ids
                        .iter()
                        .filter(|id| store.get_node_property(**id, &PropertyKey::new(k)) == Some(Value::Int64(v)))
                        .map(|n| n.as_u64())
                        .collect();
                    if via_index != via_scan {
                        inv.push(("property_index-vs-properties".into(), format!("{k}={v}: index {via_index:?} vs scan {via_scan:?}")));
                    }
                }
            }
            // I3: adjacency agrees with the edge records
            let mut all_ids: BTreeSet<u64> = live.clone();
            for n in nodes {
                all_ids.insert(n.as_u64());
            }
            for id in &all_ids {
                let nid = NodeId::new(*id);
                let mut out_adj: Vec<(u64, u64)> = store.edges_from(nid, Direction::Outgoing).map(|(d, e)| (d.as_u64(), e.as_u64())).collect();
                out_adj.sort_unstable();
                let mut out_rec: Vec<(u64, u64)> = all_edges.iter().filter(|e| e.src == nid).map(|e| (e.dst.as_u64(), e.id.as_u64())).collect();
                out_rec.sort_unstable();
                if out_adj != out_rec {
                    inv.push(("forward_adjacency-vs-edges".into(), format!("node {id}: adjacency {out_adj:?} vs records {out_rec:?}")));
                }
                let mut in_adj: Vec<(u64, u64)> = store.edges_to(nid).into_iter().map(|(s, e)| (s.as_u64(), e.as_u64())).collect();
                in_adj.sort_unstable();
                let mut in_rec: Vec<(u64, u64)> = all_edges.iter().filter(|e| e.dst == nid).map(|e| (e.src.as_u64(), e.id.as_u64())).collect();
                in_rec.sort_unstable();
                if in_adj != in_rec {
                    inv.push(("backward_adjacency-vs-edges".into(), format!("node {id}: adjacency {in_adj:?} vs records {in_rec:?}")));
                }
                if store.out_degree(nid) != out_rec.len() {
                    inv.push(("out_degree-vs-edges".into(), format!("node {id}: {} vs {}", store.out_degree(nid), out_rec.len())));
                }
            }
            // derived structures as seen through their accessors are part of the outcome
            let mut dl = Vec::new();
            for l in LABELS {
                let v: Vec<String> = store.nodes_by_label(l).iter().map(|n| name(n.as_u64(), false)).collect();
                dl.push(format!("{l}={v:?}"));
            }
            let mut dp = Vec::new();
            for k in KEYS {
                for v in -1..4i64 {
                    let mut r: Vec<String> = store.find_nodes_by_property(k, &Value::Int64(v)).iter().map(|n| name(n.as_u64(), false)).collect();
                    r.sort();
                    if !r.is_empty() {
                        dp.push(format!("{k}{v}={r:?}"));
                    }
                }
            }
            let mut da = Vec::new();
            for id in &all_ids {
                let nid = NodeId::new(*id);
                let mut o: Vec<String> = store.edges_from(nid, Direction::Outgoing).map(|(d, e)| format!("{}>{}", name(e.as_u64(), true), name(d.as_u64(), false))).collect();
                o.sort();
                let mut i: Vec<String> = store.edges_to(nid).into_iter().map(|(s2, e)| format!("{}<{}", name(e.as_u64(), true), name(s2.as_u64(), false))).collect();
                i.sort();
                if !o.is_empty() || !i.is_empty() {
                    da.push(format!("{}={o:?}{i:?}d{}", name(*id, false), store.out_degree(nid)));
                }
            }
            (
                format!(
                    "nodes\x1e{}\x1fedges\x1e{}\x1flabel_index\x1e{}\x1fproperty_lookup\x1e{}\x1fadjacency\x1e{}\x1fcounts\x1e{}/{}",
                    out.join(" "),
                    eout.join(" "),
                    dl.join(" "),
                    dp.join(" "),
                    da.join(" "),
                    store.node_count(),
                    store.edge_count()
                ),
                inv,
            )
        }
        World::Rdf { store } => {
            let all = store.triples();
            let mut set: Vec<String> = all.iter().map(|t| fmt_triple(t)).collect();
            set.sort();
            if store.len() != all.len() {
                inv.push(("len-vs-triples".into(), format!("{} vs {}", store.len(), all.len())));
            }
            // every index must describe exactly the primary set, each triple once
            let mut terms_s: BTreeSet<String> = BTreeSet::new();
            for i in 0..8u8 {
                let t = triple(i);
                for (which, term) in [("subject", t.subject().clone()), ("predicate", t.predicate().clone()), ("object", t.object().clone())] {
                    let key = format!("{which}:{term:?}");
                    if !terms_s.insert(key.clone()) {
                        continue;
                    }
                    let got: Vec<String> = match which {
                        "subject" => store.triples_with_subject(&term),
                        "predicate" => store.triples_with_predicate(&term),
                        _ => store.triples_with_object(&term),
                    }
                    .iter()
                    .map(|t| fmt_triple(t))
                    .collect();
                    let mut got_sorted = got.clone();
                    got_sorted.sort();
                    let mut want: Vec<String> = all
                        .iter()
                        .filter(|x| match which {
                            "subject" => *x.subject() == term,
                            "predicate" => *x.predicate() == term,
                            _ => *x.object() == term,
                        })
                        .map(|t| fmt_triple(t))
                        .collect();
                    want.sort();
                    if got_sorted != want {
                        inv.push((format!("{which}_index-vs-triples"), format!("{term:?}: index {got_sorted:?} vs primary {want:?}")));
                    }
                }
            }
            for i in 0..8u8 {
                let t = triple(i);
                let c = store.contains(&t);
                let f = store.find(&TriplePattern { subject: Some(t.subject().clone()), predicate: Some(t.predicate().clone()), object: Some(t.object().clone()) }).len();
                if (c && f != 1) || (!c && f != 0) {
                    inv.push(("find(spo)-vs-contains".into(), format!("triple {i}: contains={c}, find returned {f}")));
                }
            }
            let mut derived = Vec::new();
            for i in 0..8u8 {
                let t = triple(i);
                let mut a: Vec<String> = store.triples_with_subject(t.subject()).iter().map(|t| fmt_triple(t)).collect();
                a.sort();
                let mut b: Vec<String> = store.triples_with_predicate(t.predicate()).iter().map(|t| fmt_triple(t)).collect();
                b.sort();
                let mut c: Vec<String> = store.triples_with_object(t.object()).iter().map(|t| fmt_triple(t)).collect();
                c.sort();
                derived.push(format!("{i}:{}/{}/{}", a.len(), b.len(), c.len()));
                derived.push(format!("{a:?}{b:?}{c:?}"));
            }
            let st = store.stats();
            (format!("triples\x1e{}\x1fcounts\x1e{}:{}/{}/{}/{}\x1findexes\x1e{}", set.join(" "), store.len(), st.triple_count, st.subject_count, st.predicate_count, st.object_count, derived.join(" ")), inv)
        }
        World::Txm { .. } => (String::new(), inv),
        World::Buf { mgr, grants, max_seen, hard_limit } => {
            let held: usize = grants.iter().map(|g| g.lock().unwrap().iter().map(|x| x.size()).sum::<usize>()).sum();
            let allocated_now = mgr.allocated();
            let st = mgr.stats();
            let regions: usize = st.region_allocated.iter().sum();
            for g in grants {
                g.lock().unwrap().clear();
            }
            let after_release = mgr.allocated();
            let over = max_seen.load(Ordering::SeqCst) as usize > *hard_limit || allocated_now > *hard_limit;
            if over {
                inv.push(("allocated-exceeds-hard-limit".into(), format!("max allocated() seen {} > hard limit {hard_limit}", max_seen.load(Ordering::SeqCst))));
            }
            if allocated_now != held {
                inv.push(("allocated-vs-grants-held".into(), format!("allocated() {allocated_now} vs sum of live grants {held}")));
            }
            if regions != allocated_now {
                inv.push(("regions-vs-total".into(), format!("sum of regions {regions} vs total {allocated_now}")));
            }
            if after_release != 0 {
                inv.push(("accounting-not-zero-after-release".into(), format!("allocated() = {after_release} after all grants were dropped")));
            }
            (format!("held\x1e{held}\x1fover_limit\x1e{over}\x1fafter_release\x1e{after_release}"), inv)
        }
        World::Cat { cat } => {
            let mut dicts = Vec::new();
            for (dname, names, count) in [
                ("labels", cat.all_labels(), cat.label_count()),
                ("property_keys", cat.all_property_keys(), cat.property_key_count()),
                ("edge_types", cat.all_edge_types(), cat.edge_type_count()),
            ] {
                if names.len() != count {
                    inv.push((format!("{dname}-count-vs-enumeration"), format!("{count} vs {}", names.len())));
                }
                let mut seen = BTreeSet::new();
                let mut v = Vec::new();
                for (i, n) in names.iter().enumerate() {
                    if !seen.insert(n.to_string()) {
                        inv.push((format!("{dname}-name-has-two-ids"), n.to_string()));
                    }
                    let (by_name, by_id) = match dname {
                        "labels" => (cat.get_label_id(n).map(|x| x.as_u32()), cat.get_label_name(grafeo_common::types::LabelId::new(i as u32)).map(|x| x.to_string())),
                        "property_keys" => (cat.get_property_key_id(n).map(|x| x.as_u32()), cat.get_property_key_name(grafeo_common::types::PropertyKeyId::new(i as u32)).map(|x| x.to_string())),
                        _ => (cat.get_edge_type_id(n).map(|x| x.as_u32()), cat.get_edge_type_name(grafeo_common::types::EdgeTypeId::new(i as u32)).map(|x| x.to_string())),
                    };
                    if by_name != Some(i as u32) || by_id.as_deref() != Some(&**n) {
                        inv.push((format!("{dname}-name-to-id-vs-id-to-name"), format!("{n}: position {i}, by name {by_name:?}, by id {by_id:?}")));
                    }
                    v.push(format!("{n}={i}"));
                }
                dicts.push(format!("{dname}\x1e{}", v.join(" ")));
            }
            let mut defs = Vec::new();
            let mut by_label: BTreeMap<u32, BTreeSet<u32>> = BTreeMap::new();
            let mut by_lp: BTreeMap<(u32, u32), BTreeSet<u32>> = BTreeMap::new();
            for i in 0..12u32 {
                if let Some(d) = cat.get_index(grafeo_common::types::IndexId::new(i)) {
                    defs.push(format!("i{i}=L{}.p{}", d.label.as_u32(), d.property_key.as_u32()));
                    by_label.entry(d.label.as_u32()).or_default().insert(i);
                    by_lp.entry((d.label.as_u32(), d.property_key.as_u32())).or_default().insert(i);
                }
            }
            if cat.index_count() != defs.len() {
                inv.push(("index_count-vs-definitions".into(), format!("{} vs {}", cat.index_count(), defs.len())));
            }
            let mut listings = Vec::new();
            for l in 0..2u32 {
                let got: Vec<u32> = cat.indexes_for_label(grafeo_common::types::LabelId::new(l)).iter().map(|x| x.as_u32()).collect();
                let got_set: BTreeSet<u32> = got.iter().copied().collect();
                if got_set.len() != got.len() || got_set != by_label.get(&l).cloned().unwrap_or_default() {
                    inv.push(("indexes_for_label-vs-definitions".into(), format!("label {l}: listing {got:?} vs definitions {:?}", by_label.get(&l))));
                }
                listings.push(format!("L{l}={got_set:?}"));
                for k in 0..2u32 {
                    let got: Vec<u32> = cat.indexes_for_label_property(grafeo_common::types::LabelId::new(l), grafeo_common::types::PropertyKeyId::new(k)).iter().map(|x| x.as_u32()).collect();
                    let got_set: BTreeSet<u32> = got.iter().copied().collect();
                    if got_set.len() != got.len() || got_set != by_lp.get(&(l, k)).cloned().unwrap_or_default() {
                        inv.push(("indexes_for_label_property-vs-definitions".into(), format!("({l},{k}): listing {got:?} vs definitions {:?}", by_lp.get(&(l, k)))));
                    }
                    listings.push(format!("L{l}.p{k}={got_set:?}"));
                }
            }
            (format!("{}\x1findex_definitions\x1e{}\x1findex_listings\x1e{}", dicts.join("\x1f"), defs.join(" "), listings.join(" ")), inv)
        }
        World::Db { db, nodes, .. } => {
            let name = |id: u64, edge: bool| -> String {
                let key = if edge { id | (1 << 63) } else { id };
                created.get(&key).cloned().unwrap_or_else(|| format!("{}{id}", if edge { "e" } else { "n" }))
            };
            let fresh = db.session();
            // The unlabelled scan, untyped expand and GrafeoDB::node_count read at the store's own
            // epoch, which nothing advances (listed C01 finding): what they return depends on the
            // begin epochs of the writers, i.e. on the schedule, for that reason alone. The outcome
            // is therefore taken through label scans (with properties), point lookups of every id
            // handed out, and neighbour listings. (Property projections inside a scan go the same way:
            // `MATCH (n:L) RETURN n.k` is NULL for a node created at a manager epoch > 0.)
            let mut by_label = Vec::new();
            for l in LABELS {
                let mut v: Vec<String> = match fresh.execute(&format!("MATCH (n:{l}) RETURN id(n)")) {
                    Ok(r) => r.rows.iter().map(|row| match row.first() { Some(Value::Int64(i)) => name(*i as u64, false), other => format!("{other:?}") }).collect(),
                    Err(e) => vec![format!("err:{e}")],
                };
                v.sort();
                by_label.push(format!("{l}={v:?}"));
            }
            // every acknowledged creation is there afterwards (point lookups by the ids handed out)
            let mut point = Vec::new();
            for (key, nm) in created {
                if key >> 63 == 0 {
                    point.push(format!(
                        "{nm}={}",
                        fresh.get_node(NodeId::new(*key)).map_or("none".to_string(), |n| {
                            let mut ls: Vec<String> = n.labels.iter().map(|l| l.to_string()).collect();
                            ls.sort();
                            let mut ps: Vec<String> = n.properties.iter().map(|(k, v)| format!("{}={v:?}", k.as_str())).collect();
                            ps.sort();
                            format!("[{}]{{{}}}", ls.join(","), ps.join(","))
                        })
                    ));
                } else {
                    point.push(format!("{nm}={}", fresh.get_edge(EdgeId::new(*key & !(1 << 63))).is_some()));
                }
            }
            point.sort();
            let mut adj = Vec::new();
            for n in nodes {
                if let Some(x) = fresh.get_node(*n) {
                    let mut ps: Vec<String> = x.properties.iter().map(|(k, v)| format!("{}={v:?}", k.as_str())).collect();
                    ps.sort();
                    point.push(format!("{}={{{}}}", name(n.as_u64(), false), ps.join(",")));
                }
                let mut v: Vec<String> = fresh.get_neighbors_outgoing(*n).iter().map(|(d, e)| format!("{}->{}", name(e.as_u64(), true), name(d.as_u64(), false))).collect();
                v.sort();
                adj.push(format!("{}={v:?}", name(n.as_u64(), false)));
            }
            (
                format!(
                    "label_scans\x1e{}\x1fpoint_lookups\x1e{}\x1fneighbours\x1e{}",
                    by_label.join(" "),
                    point.join(" "),
                    adj.join(" ")
                ),
                inv,
            )
        }
        World::Cache { cache, plans, over } => {
            let st = cache.stats();
            if over.load(Ordering::SeqCst) > 0 || st.parsed_size > CACHE_CAP || st.optimized_size > CACHE_CAP {
                inv.push(("size-exceeds-capacity".into(), format!("sizes {}/{} with capacity {CACHE_CAP}", st.parsed_size, st.optimized_size)));
            }
            let counters = format!("{}/{}/{}/{}", st.parsed_hits, st.parsed_misses, st.optimized_hits, st.optimized_misses);
            let mut content = Vec::new();
            for k in 0..3u8 {
                for which in 0..2u8 {
                    let r = if which == 0 { cache.get_parsed(&cache_key(k)) } else { cache.get_optimized(&cache_key(k)) };
                    let d = r.map(|p| format!("{p:?}"));
                    let name = d.map_or("-".to_string(), |d| plans.iter().position(|q| format!("{q:?}") == d).map_or("unknown-plan".to_string(), |i| format!("plan{i}")));
                    content.push(format!("{}{k}={name}", if which == 0 { "parsed" } else { "optimized" }));
                }
            }
            (format!("counters\x1e{counters}\x1fsizes\x1e{}/{}\x1fcontent\x1e{}", st.parsed_size, st.optimized_size, content.join(" ")), inv)
        }
        World::Wal { wal, dir } => {
            use grafeo_adapters::storage::wal::WalRecord;
            let sync = wal.sync().map_err(|e| e.to_string());
            let count = wal.record_count();
            let mut files: Vec<(u64, std::path::PathBuf)> = std::fs::read_dir(dir)
                .map(|rd| {
                    rd.filter_map(|e| e.ok())
                        .filter_map(|e| {
                            let n = e.file_name().to_string_lossy().to_string();
                            n.strip_prefix("wal_").and_then(|x| x.strip_suffix(".log")).and_then(|x| x.parse::<u64>().ok()).map(|q| (q, e.path()))
                        })
                        .collect()
                })
                .unwrap_or_default();
            files.sort();
            let mut order = Vec::new();
            let mut seen = BTreeSet::new();
            for (q, p) in &files {
                let bytes = std::fs::read(p).unwrap_or_default();
                let ends = crate::eng_disk::valid_record_ends(&bytes, 0);
                if ends.last().copied().unwrap_or(0) != bytes.len() {
                    inv.push(("file-does-not-decode-to-its-end".into(), format!("file {q}: {} of {} bytes are valid records", ends.last().copied().unwrap_or(0), bytes.len())));
                }
                let mut pos = 0usize;
                for end in ends {
                    let payload = &bytes[pos + 4..end - 4];
                    pos = end;
                    match bincode::serde::decode_from_slice::<WalRecord, _>(payload, bincode::config::standard()) {
                        Ok((WalRecord::CreateNode { id, .. }, _)) => {
                            let (t, j) = ((id.as_u64() / 16) as usize, (id.as_u64() % 16) as usize);
                            let name = if t == 15 { format!("P{j}") } else { format!("R{t}.{j}") };
                            if !seen.insert(name.clone()) {
                                inv.push(("record-logged-twice".into(), name.clone()));
                            }
                            order.push(name);
                        }
                        other => inv.push(("foreign-record".into(), format!("{other:?}"))),
                    }
                }
            }
            let _ = std::fs::remove_dir_all(dir);
            if let Err(e) = &sync {
                inv.push(("final-sync-failed".into(), e.clone()));
            }
            if count as usize != order.len() {
                inv.push(("record_count-vs-files".into(), format!("record_count() {count} vs {} records in the files", order.len())));
            }
            (format!("records_in_recovery_order\x1e{}\x1frecord_count\x1e{count}", order.join(" ")), inv)
        }
    }
}

/// All interleavings of the threads' operation lists (per-thread order kept), capped.
fn interleavings(lens: &[usize], cap: usize) -> Vec<Vec<usize>> {
    fn rec(lens: &[usize], pos: &mut Vec<usize>, cur: &mut Vec<usize>, out: &mut Vec<Vec<usize>>, cap: usize) {
        if out.len() >= cap {
            return;
        }
        let mut done = true;
        for t in 0..lens.len() {
            if pos[t] < lens[t] {
                done = false;
                pos[t] += 1;
                cur.push(t);
                rec(lens, pos, cur, out, cap);
                cur.pop();
                pos[t] -= 1;
            }
        }
        if done {
            out.push(cur.clone());
        }
    }
    let mut out = Vec::new();
    rec(lens, &mut vec![0; lens.len()], &mut Vec::new(), &mut out, cap);
    out
}

/// Outcome string: mutator results (ids made symbolic) + final dump.
fn outcome_string(sc: &Scenario, results: &BTreeMap<(usize, usize), String>, dump: &str) -> String {
    let mut parts = Vec::new();
    for (t, ops) in sc.threads.iter().enumerate() {
        for (j, op) in ops.iter().enumerate() {
            if op.is_read() {
                continue;
            }
            let r = results.get(&(t, j)).cloned().unwrap_or_default();
            let r = if r.starts_with("id:") || r.starts_with("eid:") { "new".to_string() } else { r };
            parts.push(format!("return({})@{t}.{j}\x1e{r}", op.kind()));
        }
    }
    format!("{}\x1f{dump}", parts.join("\x1f"))
}

/// Components in which `o` differs from the nearest sequential outcome (fewest differing
/// components; ties broken by the smallest component list).
fn diff_vs_nearest(o: &str, refs: &BTreeSet<String>) -> Vec<String> {
    let split = |s: &str| -> Vec<(String, String)> {
        s.split('\x1f')
            .map(|c| {
                let mut it = c.splitn(2, '\x1e');
                (it.next().unwrap_or("").to_string(), it.next().unwrap_or("").to_string())
            })
            .collect()
    };
    let oc = split(o);
    let mut best: Option<Vec<String>> = None;
    for r in refs {
        let rc = split(r);
        let mut d: Vec<String> = Vec::new();
        for (i, (n, v)) in oc.iter().enumerate() {
            if rc.get(i).is_none_or(|(_, rv)| rv != v) {
                // strip the position from return components: "return(kind)@t.j" -> "return(kind)"
                let n = n.split('@').next().unwrap_or(n).to_string();
                if !d.contains(&n) {
                    d.push(n);
                }
            }
        }
        d.sort();
        let better = match &best {
            None => true,
            Some(b) => d.len() < b.len() || (d.len() == b.len() && d < *b),
        };
        if better {
            best = Some(d);
        }
    }
    best.unwrap_or_default()
}

pub fn pretty(o: &str) -> String {
    o.replace('\x1f', " ; ").replace('\x1e', "=")
}

fn reference_outcomes(sc: &Scenario) -> BTreeSet<String> {
    let lens: Vec<usize> = sc.threads.iter().map(Vec::len).collect();
    let mut out = BTreeSet::new();
    for order in interleavings(&lens, 2000) {
        let w = setup(sc);
        let created = std::sync::Mutex::new(BTreeMap::new());
        let mut pos = vec![0usize; lens.len()];
        let mut results = BTreeMap::new();
        for t in order {
            let j = pos[t];
            pos[t] += 1;
            results.insert((t, j), apply(&w, t, j, &sc.threads[t][j], &created));
        }
        let created = created.into_inner().unwrap();
        let (dump, _) = final_dump(&w, &created);
        out.insert(outcome_string(sc, &results, &dump));
    }
    out
}

pub struct ExecOutcome {
    pub steps: Vec<usize>,
    /// None = ran to completion
    pub crashed: Option<String>,
    pub results: BTreeMap<(usize, usize), String>,
    pub dump: String,
    pub invariants: Vec<(String, String)>,
    pub lock_points: u64,
    pub contended: u64,
}

/// Runs the scenario once under the given scheduler.
fn run_schedule(sc: &Arc<Scenario>, sched: Box<dyn Scheduler + Send>) -> ExecOutcome {
    let (rec, steps) = Recording::new(sched);
    let mut cfg = shuttle::Config::new();
    cfg.failure_persistence = shuttle::FailurePersistence::None;
    cfg.max_steps = shuttle::MaxSteps::FailAfter(60_000);
    cfg.silence_warnings = true;
    let shared: Arc<std::sync::Mutex<Option<(BTreeMap<(usize, usize), String>, String, Vec<(String, String)>, u64, u64)>>> =
        Arc::new(std::sync::Mutex::new(None));
    let sc2 = sc.clone();
    let shared2 = shared.clone();
    let r = guarded(move || {
        let runner = shuttle::Runner::new(rec, cfg);
        runner.run(move || {
            let w = Arc::new(setup(&sc2));
            let created = Arc::new(std::sync::Mutex::new(BTreeMap::new()));
            let results = Arc::new(std::sync::Mutex::new(BTreeMap::new()));
            let guard = simlock::enter();
            grafeo_common::verif::install(Some(grafeo_common::verif::Hooks {
                fs_event: None,
                clock_ns: None,
                yield_point: Some(Box::new(|_name| {
                    if !std::thread::panicking() {
                        shuttle::thread::sleep(std::time::Duration::ZERO);
                    }
                })),
                run_scoped: None,
            }));
            let mut handles = Vec::new();
            for (t, ops) in sc2.threads.iter().enumerate() {
                let (w, created, results, ops) = (w.clone(), created.clone(), results.clone(), ops.clone());
                handles.push(shuttle::thread::spawn(move || {
                    for (j, op) in ops.iter().enumerate() {
                        let r = apply(&w, t, j, op, &created);
                        results.lock().unwrap().insert((t, j), r);
                    }
                }));
            }
            for h in handles {
                h.join().unwrap();
            }
            let (acq, cont) = guard.stats();
            grafeo_common::verif::install(None);
            drop(guard);
            let created = created.lock().unwrap().clone();
            let (dump, inv) = final_dump(&w, &created);
            *shared2.lock().unwrap() = Some((results.lock().unwrap().clone(), dump, inv, acq, cont));
        });
    });
    simlock::force_leave();
    grafeo_common::verif::install(None);
    let steps = steps.lock().unwrap().clone();
    match (r, shared.lock().unwrap().take()) {
        (Ok(()), Some((results, dump, invariants, lock_points, contended))) => ExecOutcome { steps, crashed: None, results, dump, invariants, lock_points, contended },
        (Err(msg), _) => ExecOutcome { steps, crashed: Some(msg), results: BTreeMap::new(), dump: String::new(), invariants: vec![], lock_points: 0, contended: 0 },
        (Ok(()), None) => ExecOutcome { steps, crashed: Some("execution ended without a result".into()), results: BTreeMap::new(), dump: String::new(), invariants: vec![], lock_points: 0, contended: 0 },
    }
}

fn make_scheduler(kind: SchedKind, seed: u64) -> Box<dyn Scheduler + Send> {
    match kind {
        SchedKind::Random => Box::new(RandomScheduler::new_from_seed(seed, 1)),
        SchedKind::Pct(d) => Box::new(PctScheduler::new_from_seed(seed, d, 1)),
    }
}

fn ops_signature(sc: &Scenario) -> String {
    let mut per_thread: Vec<String> = sc
        .threads
        .iter()
        .map(|ops| ops.iter().map(|o| o.kind()).collect::<Vec<_>>().join("+"))
        .collect();
    per_thread.sort();
    per_thread.join(" || ")
}

/// Judges one execution; returns (signature-core, detail) per problem.
fn judge(sc: &Scenario, refs: &BTreeSet<String>, ex: &ExecOutcome, prop: &str) -> Vec<(String, String)> {
    let fam = match sc.family {
        Family::LpgCore => "lpg-core",
        Family::Lpg => "lpg",
        Family::Rdf => "rdf",
        Family::Txm => "txm",
        Family::Buffer => "buffer",
        Family::Catalog => "catalog",
        Family::Cache => "cache",
        Family::Wal => "wal",
        Family::Db => "db",
    };
    let mut out = Vec::new();
    if let Some(msg) = &ex.crashed {
        let class = if msg.contains("deadlock") {
            "deadlock".to_string()
        } else if msg.contains("exceeded max_steps") || msg.contains("max_steps") {
            "no-progress-within-step-bound".to_string()
        } else {
            format!("panic | {}", panic_class(msg))
        };
        out.push((format!("{prop} | {fam} | {class}"), msg.clone()));
        return out;
    }
    if matches!(sc.family, Family::Buffer | Family::Catalog | Family::Cache | Family::Wal) {
        for (n, d) in &ex.invariants {
            out.push((format!("{prop} | {fam} | {n}"), d.clone()));
        }
    }
    match sc.family {
        Family::Lpg | Family::LpgCore | Family::Rdf | Family::Buffer | Family::Catalog | Family::Cache | Family::Wal | Family::Db => {
            // ids unique
            let mut ids: BTreeSet<&String> = BTreeSet::new();
            for r in ex.results.values() {
                if r.contains("already handed out") || ((r.starts_with("id:") || r.starts_with("eid:") || r.starts_with("iid:")) && !ids.insert(r)) {
                    out.push((format!("{prop} | {fam} | duplicate-id"), r.clone()));
                }
            }
            if out.is_empty() {
                let o = outcome_string(sc, &ex.results, &ex.dump);
                if !refs.contains(&o) {
                    let diff = diff_vs_nearest(&o, refs);
                    let mut torn: Vec<&str> = ex.invariants.iter().map(|(n, _)| n.as_str()).collect();
                    torn.sort_unstable();
                    torn.dedup();
                    let extra = ex.invariants.first().map_or(String::new(), |(_, d)| format!("[{d}] "));
                    // one finding per differing component, so that independent root causes
                    // that meet in one execution do not multiply the signatures
                    for d in &diff {
                        out.push((
                            format!("{prop} | {fam} | not-sequential | differs-in={d}"),
                            format!("all differing components: {} ; cross-structure disagreements: {} ; {extra}observed: {}  -- one of {} sequential outcomes: {}", diff.join("+"), if torn.is_empty() { "-".to_string() } else { torn.join("+") }, pretty(&o), refs.len(), refs.iter().next().map(|r| pretty(r)).unwrap_or_default()),
                        ));
                    }
                }
            }
        }
        Family::Txm => {
            // parse tx results
            struct T { b_inv: u64, b_ret: u64, c_inv: u64, c_ret: u64, ok: bool, epoch: u64, ents: Vec<u8>, other: bool }
            let mut txs = Vec::new();
            for (t, ops) in sc.threads.iter().enumerate() {
                for (j, op) in ops.iter().enumerate() {
                    if let SOp::TxWriteCommit(ents) = op {
                        if let Some(r) = ex.results.get(&(t, j)) {
                            let p: Vec<&str> = r.split(':').collect();
                            if p.len() >= 8 {
                                let n = |i: usize| p[i].parse::<u64>().unwrap_or(0);
                                txs.push(T { b_inv: n(2), b_ret: n(3), c_inv: n(4), c_ret: n(5), ok: p[6] == "ok", epoch: n(7), ents: ents.clone(), other: p[6].starts_with("other") });
                            }
                        }
                    }
                }
            }
            for (i, x) in txs.iter().enumerate() {
                if x.other {
                    out.push((format!("{prop} | txm | unexpected-commit-error"), "commit returned an error other than WriteConflict".into()));
                }
                for (k, y) in txs.iter().enumerate() {
                    if k == i {
                        continue;
                    }
                    let share = x.ents.iter().any(|e| y.ents.contains(e));
                    // Lifetimes certainly overlap: each had begun before the other's commit was
                    // invoked. Whichever commit takes effect second then has a committed
                    // overlapping writer of a shared entity and must be refused - also when the
                    // two commit calls themselves overlap in time.
                    if k > i && share && y.ok && x.ok && x.b_ret < y.c_inv && y.b_ret < x.c_inv {
                        out.push((format!("{prop} | txm | lost-update(both-committed)"), format!("both writers of a shared entity committed: lifetimes {}..{} and {}..{} (commit calls {}..{} and {}..{})", x.b_inv, x.c_ret, y.b_inv, y.c_ret, x.c_inv, x.c_ret, y.c_inv, y.c_ret)));
                    }
                    if k > i && x.ok && y.ok && x.epoch == y.epoch {
                        out.push((format!("{prop} | txm | duplicate-commit-epoch"), format!("epoch {}", x.epoch)));
                    }
                    if x.ok && y.ok && x.c_ret < y.c_inv && x.epoch >= y.epoch {
                        out.push((format!("{prop} | txm | commit-epochs-not-increasing"), format!("{} then {}", x.epoch, y.epoch)));
                    }
                }
                if !x.ok && !x.other {
                    // a refusal needs a committed writer of a shared entity that may have
                    // committed after x began and before x's commit returned
                    let excuse = txs.iter().enumerate().any(|(k, y)| {
                        k != i && y.ok && y.ents.iter().any(|e| x.ents.contains(e)) && !(y.c_ret < x.b_inv) && !(y.c_inv > x.c_ret)
                    });
                    if !excuse {
                        out.push((format!("{prop} | txm | refused-without-overlapping-committed-writer"), format!("lifetime {}..{}", x.b_inv, x.c_ret)));
                    }
                }
            }
        }
    }
    out
}

pub fn generate(rng: &mut Prng, family: Family) -> Scenario {
    let n_threads = if rng.chance(1, 4) { 3 } else { 2 };
    let max_ops = if n_threads == 3 { 2 } else { 3 };
    let mut threads = Vec::new();
    let pre_nodes = rng.range(1, 3) as usize;
    let pre_edges = rng.range(0, 2) as usize;
    let indexed: Vec<u8> = if family == Family::LpgCore { vec![0] } else { (0..2u8).filter(|_| rng.chance(1, 2)).collect() };
    let pre_triples: Vec<u8> = (0..8u8).filter(|_| rng.chance(1, 3)).collect();
    let sc_pre_indexes = pre_edges.min(2);
    let cat_dict_scenario = rng.chance(1, 2);
    let cat_dict = rng.below(3) as u8;
    // conflicts need shared targets: most ops aim at slot 0 / triple 0
    for _ in 0..n_threads {
        let n = rng.range(1, max_ops) as usize;
        let mut ops = Vec::new();
        for _ in 0..n {
            let slot = if rng.chance(2, 3) { 0 } else { rng.usize(pre_nodes) };
            let op = match family {
                Family::LpgCore => match rng.below(9) {
                    0 | 1 => SOp::CreateNode(rng.below(3) as u8),
                    2 | 3 => SOp::CreateEdge(slot, rng.usize(pre_nodes)),
                    4 | 5 => SOp::DeleteEdge(rng.usize(2)),
                    6 => SOp::SetProp(slot, 1, rng.below(3) as i64),
                    7 => SOp::ScanLabel(rng.below(3) as u8),
                    _ => SOp::ComputeStats,
                },
                Family::Lpg => match rng.below(14) {
                    0 => SOp::CreateNode(rng.below(3) as u8),
                    1 => SOp::DetachDelete(slot),
                    2 => {
                        ops.push(SOp::DeleteNodeEdges(slot));
                        SOp::DetachDelete(slot)
                    }
                    3 | 4 => SOp::AddLabel(slot, rng.below(3) as u8),
                    5 => SOp::RemoveLabel(slot, rng.below(3) as u8),
                    6 | 7 => SOp::SetProp(slot, rng.below(2) as u8, rng.below(3) as i64),
                    8 => SOp::RemoveProp(slot, rng.below(2) as u8),
                    9 => SOp::CreateEdge(slot, rng.usize(pre_nodes)),
                    10 => SOp::DeleteEdge(rng.usize(2)),
                    11 => SOp::ScanLabel(rng.below(3) as u8),
                    12 => SOp::FindProp(rng.below(2) as u8, rng.below(3) as i64),
                    _ => SOp::ComputeStats,
                },
                Family::Rdf => {
                    let t = if rng.chance(2, 3) { 0 } else { rng.below(8) as u8 };
                    match rng.below(5) {
                        0 | 1 => SOp::RdfInsert(t),
                        2 | 3 => SOp::RdfRemove(t),
                        _ => SOp::RdfFind(t),
                    }
                }
                Family::Buffer => match rng.below(6) {
                    0 | 1 | 2 => SOp::BufAlloc(*rng.pick(&[30usize, 40, 50, 60, 95])),
                    3 | 4 => SOp::BufRelease,
                    _ => SOp::BufResize(*rng.pick(&[10usize, 50, 90])),
                },
                // a scenario is either about the name dictionaries (one of the three, mostly
                // DIFFERENT new names racing for consecutive ids, sometimes the same name) or
                // about the index definitions
                Family::Catalog if cat_dict_scenario => SOp::CatGetOrCreate(if rng.chance(5, 6) { cat_dict } else { rng.below(3) as u8 }, rng.below(3) as u8),
                Family::Catalog => match rng.below(20) {
                    0 | 1 => SOp::CatGetOrCreate(rng.below(3) as u8, rng.below(3) as u8),
                    2..=10 => SOp::CatCreateIndex(rng.below(2) as u8, rng.below(2) as u8),
                    // mostly the ids that this very scenario hands out first
                    11..=17 => SOp::CatDropIndex(if rng.chance(3, 4) { (sc_pre_indexes + rng.below(2) as usize) as u8 } else { rng.below(4) as u8 }),
                    _ => SOp::CatRead(rng.below(2) as u8),
                },
                Family::Cache => {
                    let k = if rng.chance(2, 3) { 0 } else { rng.below(3) as u8 };
                    let which = rng.below(2) as u8;
                    match rng.below(20) {
                        0..=8 => SOp::CachePut(which, k),
                        9..=12 => SOp::CacheGet(which, k),
                        13..=15 => SOp::CacheInvalidate(k),
                        16..=18 => SOp::CacheClear,
                        _ => SOp::CacheStats,
                    }
                }
                Family::Db => match rng.below(12) {
                    0 => SOp::DbCreateNode(rng.below(3) as u8),
                    1 | 2 => SOp::SessCreateNode(rng.below(3) as u8),
                    3 | 4 => SOp::SessInsertQ(rng.below(3) as u8, 10 + rng.below(80) as i64),
                    5 | 6 => SOp::SessTxInsertCommit(rng.below(3) as u8, 100 + 2 * rng.below(40) as i64, rng.chance(1, 3)),
                    7 => SOp::SessTxInsertRollback(rng.below(3) as u8, 300 + rng.below(80) as i64),
                    8 => SOp::SessSetPropQ(slot, rng.below(90) as i64),
                    9 | 10 => SOp::SessCreateEdge(slot, rng.usize(pre_nodes)),
                    _ => SOp::SessCountQ,
                },
                Family::Wal => match rng.below(8) {
                    0..=4 => SOp::WalLog,
                    5 => SOp::WalSync,
                    _ => SOp::WalRotate,
                },
                Family::Txm => {
                    if rng.chance(1, 6) {
                        SOp::TxGc
                    } else {
                        let mut ents: Vec<u8> = (0..rng.range(1, 2)).map(|_| rng.below(2) as u8).collect();
                        ents.dedup();
                        SOp::TxWriteCommit(ents)
                    }
                }
            };
            ops.push(op);
        }
        threads.push(ops);
    }
    Scenario { family, pre_nodes, pre_edges, indexed, pre_triples, threads }
}

pub fn replay_doc(sc: &Scenario, kind: SchedKind, sched_seed: u64, steps: &[usize]) -> serde_json::Value {
    json!({"engine": "SCHED", "scenario": sc, "scheduler": kind, "scheduler_seed": sched_seed,
           "schedule": steps, "faults": [{"preemptions": "every lock acquire/release is a scheduling point; the schedule lists the task chosen at each point"}]})
}

/// One run = one scenario explored under `n_sched` schedules.
pub fn run_one(seed: u64, family: Family, prop: &'static str, n_sched: usize) -> RunOut {
    let mut rng = Prng::new(seed);
    let sc = generate(&mut rng, family);
    run_scenario(seed, &mut rng, sc, prop, n_sched)
}

fn explore(sc: &Arc<Scenario>, refs: &BTreeSet<String>, rng: &mut Prng, prop: &str, n_sched: usize, out: &mut RunOut, shapes: &mut BTreeSet<u64>) -> Vec<(String, String, SchedKind, u64, Vec<usize>)> {
    let mut found: Vec<(String, String, SchedKind, u64, Vec<usize>)> = Vec::new();
    for i in 0..n_sched {
        let kind = match i % 3 {
            0 => SchedKind::Random,
            1 => SchedKind::Pct(2),
            _ => SchedKind::Pct(3),
        };
        let s_seed = rng.next_u64();
        let ex = run_schedule(sc, make_scheduler(kind, s_seed));
        out.steps += ex.steps.len() as u64;
        out.probe_n("lock_scheduling_points", ex.lock_points);
        out.probe_n("lock_found_taken", ex.contended);
        out.fault("preemption_points");
        shapes.insert(fnv(&ex.steps.iter().map(|s| *s as u8).collect::<Vec<u8>>()));
        for (sig, detail) in judge(sc, refs, &ex, prop) {
            if !found.iter().any(|f| f.0 == sig) {
                found.push((sig, detail, kind, s_seed, ex.steps.clone()));
            }
        }
    }
    found
}

fn run_scenario(seed: u64, rng: &mut Prng, sc: Scenario, prop: &'static str, n_sched: usize) -> RunOut {
    let mut out = RunOut::default();
    let refs = reference_outcomes(&sc);
    let sc = Arc::new(sc);
    let mut shapes = BTreeSet::new();
    let found = explore(&sc, &refs, rng, prop, n_sched, &mut out, &mut shapes);
    out.hash = fnv(&serde_json::to_vec(&*sc).unwrap());
    out.shape = fnv(&shapes.iter().flat_map(|s| s.to_le_bytes()).collect::<Vec<u8>>());
    out.probe_n("distinct_schedules", shapes.len() as u64);
    let writers = sc.threads.iter().filter(|t| t.iter().any(|o| !o.is_read())).count();
    out.nontrivial = writers >= 2;
    out.digest = out.hash ^ out.shape;
    out.sample = Some(json!({"seed": seed, "scenario": *sc, "schedules_explored": n_sched, "sequential_outcomes": refs.len()}));
    for (sig, detail, kind, s_seed, steps) in found {
        let detail = format!("ops: {} :: {detail}", ops_signature(&sc));
        out.findings.push(Finding { property: prop.to_string(), signature: sig.clone(), detail, replay: replay_doc(&sc, kind, s_seed, &steps) });
    }
    out
}

/// Shrinks the scenario of a new violation (bounded schedule search per candidate).
pub fn minimise(f: &Finding) -> Finding {
    let sc: Scenario = serde_json::from_value(f.replay["scenario"].clone()).unwrap();
    let kind: SchedKind = serde_json::from_value(f.replay["scheduler"].clone()).unwrap_or(SchedKind::Random);
    let s_seed = f.replay["scheduler_seed"].as_u64().unwrap_or(0);
    let steps: Vec<usize> = serde_json::from_value(f.replay["schedule"].clone()).unwrap_or_default();
    let mut rng = Prng::new(s_seed ^ 0x5eed_5eed);
    let prop = f.property.clone();
    let (small, skind, sseed, ssteps, sdetail) = shrink(&sc, &f.signature, &prop, &mut rng, kind, s_seed, steps, f.detail.clone());
    let detail = if small.threads == sc.threads { sdetail } else { format!("ops: {} :: {sdetail}", ops_signature(&small)) };
    Finding { property: prop, signature: f.signature.clone(), detail, replay: replay_doc(&small, skind, sseed, &ssteps) }
}

/// Drops operations / threads while some schedule (bounded search) still shows the same
/// violation class.
#[allow(clippy::too_many_arguments)]
fn shrink(sc: &Scenario, sig: &str, prop: &str, rng: &mut Prng, kind: SchedKind, s_seed: u64, steps: Vec<usize>, detail: String) -> (Scenario, SchedKind, u64, Vec<usize>, String) {
    let mut best = (sc.clone(), kind, s_seed, steps, detail);
    let mut progress = true;
    while progress {
        progress = false;
        let cur = best.0.clone();
        'cands: for t in 0..cur.threads.len() {
            for j in 0..cur.threads[t].len() {
                let mut cand = cur.clone();
                cand.threads[t].remove(j);
                cand.threads.retain(|x| !x.is_empty());
                if cand.threads.len() < 2 {
                    continue;
                }
                let refs = reference_outcomes(&cand);
                let candarc = Arc::new(cand.clone());
                let mut dummy = RunOut::default();
                let mut shapes = BTreeSet::new();
                let found = explore(&candarc, &refs, rng, prop, 400, &mut dummy, &mut shapes);
                if let Some(f) = found.into_iter().find(|f| f.0 == sig) {
                    best = (cand, f.2, f.3, f.4, f.1);
                    progress = true;
                    break 'cands;
                }
            }
        }
    }
    best
}

pub fn replay(doc: &serde_json::Value, prop: &str) -> Vec<(String, String)> {
    let sc: Scenario = serde_json::from_value(doc["scenario"].clone()).unwrap();
    let steps: Vec<usize> = serde_json::from_value(doc["schedule"].clone()).unwrap_or_default();
    let refs = reference_outcomes(&sc);
    let sc = Arc::new(sc);
    let mut sched = ReplayScheduler::new_from_schedule(simlock::schedule_from_steps(&steps));
    sched.set_allow_incomplete();
    let ex = run_schedule(&sc, Box::new(sched));
    println!("  scenario: {:?}", sc.threads);
    println!("  schedule ({} steps): {:?}", steps.len(), steps);
    judge(&sc, &refs, &ex, prop)
}

#[allow(dead_code)]
fn _unused(_: TxId) {}
