//! CODEC — the codecs as used inside the two stateful containers (C15, partial claim):
//! `PropertyStorage` (hot buffer + compressed column: integer, dictionary and boolean
//! codecs run end to end through force_compress_all / decompress) and `ChunkedAdjacency`
//! (64-entry chunks, delta buffer, tombstones, compaction, cold compression, freeze_all).
//! Histories are drawn from the run seed; every read is compared with a map model.

use std::collections::{BTreeMap, BTreeSet};

use grafeo_common::types::{EdgeId, NodeId, PropertyKey, Value};
use grafeo_core::graph::lpg::PropertyStorage;
use grafeo_core::index::ChunkedAdjacency;
use serde::{Deserialize, Serialize};
use serde_json::json;

use crate::fw::{Finding, RunOut, guarded, panic_class};
use crate::model_graph::SV;
use crate::prng::{Prng, fnv};

#[derive(Clone, Debug, PartialEq, Serialize, Deserialize)]
pub enum COp {
    // ---- PropertyStorage ----
    Set(u64, u8, SV),
    Remove(u64, u8),
    RemoveAll(u64),
    ForceCompressAll,
    CompressAll,
    /// enable_compression(key, CompressionMode::None): decompresses the column
    DisableCompression(u8),
    // ---- ChunkedAdjacency ----
    AddEdge(u64, u64),
    /// marks the n-th live edge (in insertion order) of the structure deleted
    DeleteNth(u32),
    Compact,
    CompactIfNeeded,
    FreezeAll,
    Clear,
}

impl COp {
    fn kind(&self) -> &'static str {
        match self {
            COp::Set(..) => "set",
            COp::Remove(..) => "remove",
            COp::RemoveAll(_) => "remove_all",
            COp::ForceCompressAll => "force_compress_all",
            COp::CompressAll => "compress_all",
            COp::DisableCompression(_) => "enable_compression(None)",
            COp::AddEdge(..) => "add_edge",
            COp::DeleteNth(_) => "mark_deleted",
            COp::Compact => "compact",
            COp::CompactIfNeeded => "compact_if_needed",
            COp::FreezeAll => "freeze_all",
            COp::Clear => "clear",
        }
    }
}

#[derive(Clone, Debug, Serialize, Deserialize)]
pub struct Config {
    /// "props" | "adjacency"
    pub mode: String,
    pub chunk_capacity: usize,
}

const PKEYS: [&str; 3] = ["a", "b", "c"];

pub struct ExecResult {
    pub findings: Vec<(String, String)>,
    pub probes: BTreeMap<&'static str, u64>,
    pub steps_done: usize,
    pub nontrivial: bool,
    pub digest: u64,
}

fn exec_props(ops: &[COp]) -> ExecResult {
    let st: PropertyStorage<NodeId> = PropertyStorage::new();
    let mut m: BTreeMap<(u64, u8), SV> = BTreeMap::new();
    let mut findings: Vec<(String, String)> = Vec::new();
    let mut probes: BTreeMap<&'static str, u64> = BTreeMap::new();
    let mut compressed_once = false;
    let mut since_compress = "never-compressed";
    let mut digest = 0u64;
    let mut steps_done = 0;
    let mut ids: BTreeSet<u64> = BTreeSet::new();
    for (i, op) in ops.iter().enumerate() {
        match op {
            COp::Set(id, k, v) => {
                st.set(NodeId::new(*id), PropertyKey::new(PKEYS[*k as usize % 3]), v.to_value());
                m.insert((*id, *k % 3), v.clone());
                ids.insert(*id);
            }
            COp::Remove(id, k) => {
                let got = st.remove(NodeId::new(*id), &PropertyKey::new(PKEYS[*k as usize % 3])).map(|v| SV::from_value(&v));
                let want = m.remove(&(*id, *k % 3));
                if got != want {
                    findings.push((format!("C15 | props | remove-return | state={since_compress}"), format!("step {i}: {got:?} vs {want:?}")));
                    break;
                }
            }
            COp::RemoveAll(id) => {
                st.remove_all(NodeId::new(*id));
                m.retain(|(x, _), _| x != id);
            }
            COp::ForceCompressAll => {
                st.force_compress_all();
                let any = st.compression_stats().values().any(|s| s.codec.is_some());
                if any {
                    compressed_once = true;
                    since_compress = "compressed";
                    *probes.entry("column_compressed").or_insert(0) += 1;
                }
            }
            COp::CompressAll => st.compress_all(),
            COp::DisableCompression(k) => {
                let key = PropertyKey::new(PKEYS[*k as usize % 3]);
                let was = st.compression_stats().get(&key).is_some_and(|s| s.codec.is_some());
                st.enable_compression(&key, Default::default());
                if was {
                    *probes.entry("column_decompressed").or_insert(0) += 1;
                    if !st.compression_stats().values().any(|s| s.codec.is_some()) {
                        since_compress = "decompressed";
                    }
                }
            }
            _ => continue,
        }
        steps_done = i + 1;
        digest = digest.rotate_left(3) ^ fnv(op.kind().as_bytes()) ^ m.len() as u64;
        // reads
        let mut bad: Option<(String, String)> = None;
        for id in &ids {
            for k in 0..3u8 {
                let key = PropertyKey::new(PKEYS[k as usize]);
                let got = st.get(NodeId::new(*id), &key).map(|v| SV::from_value(&v));
                let want = m.get(&(*id, k)).cloned();
                if got != want {
                    let class = if got.is_none() { "value-lost" } else if want.is_none() { "value-resurrected" } else { "value-changed" };
                    bad = Some((format!("C15 | props | get | {class} | state={since_compress}"), format!("step {i} (after {}): id {id} key {}: {got:?} vs {want:?}", op.kind(), PKEYS[k as usize])));
                    break;
                }
            }
            if bad.is_some() {
                break;
            }
            let all: BTreeMap<String, SV> = st.get_all(NodeId::new(*id)).iter().map(|(k, v)| (k.as_str().to_string(), SV::from_value(v))).collect();
            let want: BTreeMap<String, SV> = m.iter().filter(|((x, _), _)| x == id).map(|((_, k), v)| (PKEYS[*k as usize].to_string(), v.clone())).collect();
            if all != want {
                bad = Some((format!("C15 | props | get_all | mismatch | state={since_compress}"), format!("step {i} (after {}): id {id}: {all:?} vs {want:?}", op.kind())));
                break;
            }
        }
        if bad.is_none() && !ids.is_empty() {
            let idv: Vec<NodeId> = ids.iter().map(|i| NodeId::new(*i)).collect();
            for k in 0..3u8 {
                let got: Vec<Option<SV>> = st.get_batch(&idv, &PropertyKey::new(PKEYS[k as usize])).iter().map(|v| v.as_ref().map(SV::from_value)).collect();
                let want: Vec<Option<SV>> = ids.iter().map(|id| m.get(&(*id, k)).cloned()).collect();
                if got != want {
                    bad = Some((format!("C15 | props | get_batch | mismatch | state={since_compress}"), format!("step {i} (after {}): key {}: {got:?} vs {want:?}", op.kind(), PKEYS[k as usize])));
                    break;
                }
            }
        }
        if let Some(b) = bad {
            findings.push(b);
            break;
        }
    }
    ExecResult { findings, probes, steps_done, nontrivial: compressed_once || steps_done >= 4, digest }
}

fn exec_adj(cfg: &Config, ops: &[COp]) -> ExecResult {
    let adj = if cfg.chunk_capacity == 64 { ChunkedAdjacency::new() } else { ChunkedAdjacency::with_chunk_capacity(cfg.chunk_capacity) };
    // live edges in insertion order: (src, dst, eid)
    let mut live: Vec<(u64, u64, u64)> = Vec::new();
    let mut next_eid = 0u64;
    let mut srcs: BTreeSet<u64> = BTreeSet::new();
    let mut findings: Vec<(String, String)> = Vec::new();
    let mut probes: BTreeMap<&'static str, u64> = BTreeMap::new();
    let mut digest = 0u64;
    let mut steps_done = 0;
    let mut max_list = 0usize;
    let mut state = "hot";
    for (i, op) in ops.iter().enumerate() {
        match op {
            COp::AddEdge(s, d) => {
                adj.add_edge(NodeId::new(*s), NodeId::new(*d), EdgeId::new(next_eid));
                live.push((*s, *d, next_eid));
                next_eid += 1;
                srcs.insert(*s);
                let n = live.iter().filter(|e| e.0 == *s).count();
                max_list = max_list.max(n);
            }
            COp::DeleteNth(n) => {
                if live.is_empty() {
                    continue;
                }
                let (s, _, e) = live.remove(*n as usize % live.len());
                adj.mark_deleted(NodeId::new(s), EdgeId::new(e));
            }
            COp::Compact => {
                adj.compact();
                *probes.entry("compaction").or_insert(0) += 1;
                if adj.memory_stats().cold_entries > 0 {
                    state = "has-cold-chunks";
                    *probes.entry("adjacency_went_cold").or_insert(0) += 1;
                }
            }
            COp::CompactIfNeeded => {
                adj.compact_if_needed();
                if adj.memory_stats().cold_entries > 0 {
                    state = "has-cold-chunks";
                }
            }
            COp::FreezeAll => {
                adj.freeze_all();
                *probes.entry("freeze_all").or_insert(0) += 1;
                if adj.memory_stats().cold_entries > 0 {
                    state = "has-cold-chunks";
                    *probes.entry("adjacency_went_cold").or_insert(0) += 1;
                }
            }
            COp::Clear => {
                adj.clear();
                live.clear();
                state = "hot";
            }
            _ => continue,
        }
        steps_done = i + 1;
        digest = digest.rotate_left(3) ^ fnv(op.kind().as_bytes()) ^ live.len() as u64;
        if (i + 1) % 4 != 0 && i + 1 != ops.len() && !matches!(op, COp::Compact | COp::FreezeAll | COp::CompactIfNeeded | COp::Clear | COp::DeleteNth(_)) {
            continue; // full comparison every 4th add and after every structural operation
        }
        let mut bad: Option<(String, String)> = None;
        for s in &srcs {
            let mut got: Vec<(u64, u64)> = adj.edges_from(NodeId::new(*s)).iter().map(|(d, e)| (d.as_u64(), e.as_u64())).collect();
            got.sort_unstable();
            let mut want: Vec<(u64, u64)> = live.iter().filter(|e| e.0 == *s).map(|e| (e.1, e.2)).collect();
            want.sort_unstable();
            if got != want {
                let class = if got.len() < want.len() { "entry-lost" } else if got.len() > want.len() { "deleted-entry-visible-or-duplicated" } else { "entry-changed" };
                bad = Some((format!("C15 | adjacency | edges_from | {class} | state={state}"), format!("step {i} (after {}): src {s}: {} entries vs {} expected; first differences: {:?} vs {:?}", op.kind(), got.len(), want.len(), got.iter().filter(|x| !want.contains(x)).take(3).collect::<Vec<_>>(), want.iter().filter(|x| !got.contains(x)).take(3).collect::<Vec<_>>())));
                break;
            }
            let mut nb: Vec<u64> = adj.neighbors(NodeId::new(*s)).iter().map(|n| n.as_u64()).collect();
            nb.sort_unstable();
            let mut wn: Vec<u64> = want.iter().map(|(d, _)| *d).collect();
            wn.sort_unstable();
            if nb != wn {
                bad = Some((format!("C15 | adjacency | neighbors | mismatch | state={state}"), format!("step {i} (after {}): src {s}: {nb:?} vs {wn:?}", op.kind())));
                break;
            }
            if adj.out_degree(NodeId::new(*s)) != want.len() {
                bad = Some((format!("C15 | adjacency | out_degree | mismatch | state={state}"), format!("step {i} (after {}): src {s}: {} vs {}", op.kind(), adj.out_degree(NodeId::new(*s)), want.len())));
                break;
            }
        }
        if bad.is_none() && adj.active_edge_count() != live.len() {
            bad = Some((format!("C15 | adjacency | active_edge_count | mismatch | state={state}"), format!("step {i} (after {}): {} vs {}", op.kind(), adj.active_edge_count(), live.len())));
        }
        if let Some(b) = bad {
            findings.push(b);
            break;
        }
    }
    for (t, name) in [(64usize, "list_crossed_64"), (128, "list_crossed_128"), (320, "list_crossed_320")] {
        if max_list >= t {
            *probes.entry(name).or_insert(0) += 1;
        }
    }
    ExecResult { findings, probes, steps_done, nontrivial: steps_done >= 4, digest }
}

pub fn exec(cfg: &Config, ops: &[COp]) -> ExecResult {
    if cfg.mode == "props" { exec_props(ops) } else { exec_adj(cfg, ops) }
}

pub fn generate(rng: &mut Prng, thorough: bool) -> (Config, Vec<COp>) {
    if rng.chance(1, 2) {
        // property columns: values chosen so that each codec is reached
        let len = rng.range(4, if thorough { 160 } else { 80 }) as usize;
        let n_ids = rng.range(2, 40);
        let style = rng.below(6);
        let mut ops = Vec::new();
        let mut u = 0i64;
        while ops.len() < len {
            u += 1;
            let id = rng.below(n_ids);
            let k = rng.below(3) as u8;
            let v = match style {
                0 => SV::Int(7),                                                   // all equal → RLE
                1 => SV::Int(u * 3),                                               // increasing → delta
                2 => SV::Int(*rng.pick(&[i64::MIN, i64::MAX, 0, -1, 1])),         // extremes
                3 => SV::Str(format!("s{}", rng.below(3))),                       // repeated strings → dictionary
                4 => SV::Bool(rng.chance(1, 2)),                                   // booleans
                _ => match rng.below(4) {
                    0 => SV::Int(rng.below(1000) as i64),
                    1 => SV::Str(format!("t{}", rng.below(5))),
                    2 => SV::Bool(rng.chance(1, 2)),
                    _ => SV::f(u as f64),
                },
            };
            let op = match rng.below(20) {
                0..=13 => COp::Set(id, k, v),
                14 => COp::Remove(id, k),
                15 if rng.chance(1, 3) => COp::RemoveAll(id),
                16 | 17 => COp::ForceCompressAll,
                18 => COp::CompressAll,
                19 => COp::DisableCompression(k),
                _ => continue,
            };
            ops.push(op);
        }
        // make sure the interesting sequence occurs: fill, compress, read, decompress, read
        if rng.chance(1, 2) {
            ops.push(COp::ForceCompressAll);
            ops.push(COp::DisableCompression(0));
            ops.push(COp::DisableCompression(1));
            ops.push(COp::DisableCompression(2));
        }
        (Config { mode: "props".into(), chunk_capacity: 64 }, ops)
    } else {
        let chunk_capacity = *rng.pick(&[1usize, 2, 4, 64, 64]);
        let big = rng.chance(1, if thorough { 3 } else { 8 });
        let len = if big { rng.range(100, 700) as usize } else { rng.range(4, 90) as usize };
        let n_src = if big { 2 } else { rng.range(1, 4) };
        // destination node 0 in a one-entry cold chunk hits a listed known finding
        // (DeltaBitPacked [0]); keep it out of 9 runs in 10 so that cold chunks are judged strictly
        let zero_dst = rng.chance(1, 10);
        let mut ops = Vec::new();
        while ops.len() < len {
            let op = match rng.below(40) {
                0..=27 => COp::AddEdge(if big && rng.chance(5, 6) { 0 } else { rng.below(n_src) }, if zero_dst { rng.below(6) } else { 1 + rng.below(5) }),
                28..=32 => COp::DeleteNth(rng.next_u64() as u32),
                33 | 34 => COp::Compact,
                35 | 36 => COp::CompactIfNeeded,
                37 | 38 => COp::FreezeAll,
                _ => {
                    if rng.chance(1, 6) {
                        COp::Clear
                    } else {
                        continue;
                    }
                }
            };
            ops.push(op);
        }
        (Config { mode: "adjacency".into(), chunk_capacity }, ops)
    }
}

fn run_guarded(cfg: &Config, ops: &[COp]) -> ExecResult {
    match guarded(|| exec(cfg, ops)) {
        Ok(r) => r,
        Err(msg) => ExecResult { findings: vec![(format!("C15 | {} | panic | {}", cfg.mode, panic_class(&msg)), msg)], probes: BTreeMap::new(), steps_done: 0, nontrivial: true, digest: 0 },
    }
}

pub fn replay_doc(cfg: &Config, ops: &[COp]) -> serde_json::Value {
    json!({"engine": "CODEC", "config": cfg, "ops": ops, "schedule": null, "faults": []})
}

pub fn run_one(seed: u64, thorough: bool) -> RunOut {
    let mut rng = Prng::new(seed);
    let (cfg, ops) = generate(&mut rng, thorough);
    let res = run_guarded(&cfg, &ops);
    let mut out = RunOut::default();
    out.hash = fnv(&serde_json::to_vec(&(&cfg, &ops)).unwrap());
    out.shape = fnv(ops.iter().map(|o| o.kind()).collect::<Vec<_>>().join(",").as_bytes());
    out.nontrivial = res.nontrivial;
    out.steps = res.steps_done as u64;
    out.probes = res.probes;
    out.digest = res.digest;
    if ops.len() <= 14 {
        out.sample = Some(json!({"seed": seed, "config": cfg, "ops": ops}));
    }
    for (sig, detail) in res.findings {
        out.findings.push(Finding { property: "C15".into(), signature: sig, detail, replay: replay_doc(&cfg, &ops) });
    }
    out
}

pub fn minimise(f: &Finding) -> Finding {
    let cfg: Config = serde_json::from_value(f.replay["config"].clone()).unwrap();
    let ops: Vec<COp> = serde_json::from_value(f.replay["ops"].clone()).unwrap();
    let sig = f.signature.clone();
    let mut fails = |cand: &[COp]| run_guarded(&cfg, cand).findings.iter().any(|(s, _)| *s == sig);
    let small = if fails(&ops) { crate::fw::ddmin(&ops, &mut fails, 600) } else { ops.clone() };
    let res = run_guarded(&cfg, &small);
    let detail = res.findings.iter().find(|(s, _)| *s == sig).map(|(_, d)| d.clone()).unwrap_or_else(|| f.detail.clone());
    Finding { property: f.property.clone(), signature: sig, detail, replay: replay_doc(&cfg, &small) }
}

pub fn replay(doc: &serde_json::Value) -> Vec<(String, String)> {
    let cfg: Config = serde_json::from_value(doc["config"].clone()).unwrap();
    let ops: Vec<COp> = serde_json::from_value(doc["ops"].clone()).unwrap();
    for (i, o) in ops.iter().enumerate().take(60) {
        println!("  {i}: {o:?}");
    }
    run_guarded(&cfg, &ops).findings
}
