//! CODEC — the codecs as used inside the two stateful containers (C15, partial claim):
//! `PropertyStorage` (hot buffer + compressed column: integer, dictionary and boolean
//! codecs run end to end through force_compress_all / decompress) and `ChunkedAdjacency`
//! (64-entry chunks, delta buffer, tombstones, compaction, cold compression, freeze_all).
//! Histories are drawn from the run seed; every read is compared with a map model.

use std::collections::{BTreeMap, BTreeSet};

use serde::{Deserialize, Serialize};
use serde_json::json;

use crate::fw::{Finding, RunOut, guarded, panic_class};
use crate::model_graph::SV;
use crate::prng::{Prng, fnv};

#[derive(Clone, Debug, PartialEq, Serialize, Deserialize)]
pub enum COp {
    // ---- PropertyStorage ----
    Set(u64, u8, SV),
    Remove(u64, u8),
    RemoveAll(u64),
    ForceCompressAll,
    CompressAll,
    /// enable_compression(key, CompressionMode::None): decompresses the column
    DisableCompression(u8),
    // ---- ChunkedAdjacency ----
    AddEdge(u64, u64),
    /// marks the n-th live edge (in insertion order) of the structure deleted
    DeleteNth(u32),
    Compact,
    CompactIfNeeded,
    FreezeAll,
    Clear,
}

impl COp {
    fn kind(&self) -> &'static str {
        match self {
            COp::Set(..) => "set",
            COp::Remove(..) => "remove",
            COp::RemoveAll(_) => "remove_all",
            COp::ForceCompressAll => "force_compress_all",
            COp::CompressAll => "compress_all",
            COp::DisableCompression(_) => "enable_compression(None)",
            COp::AddEdge(..) => "add_edge",
            COp::DeleteNth(_) => "mark_deleted",
            COp::Compact => "compact",
            COp::CompactIfNeeded => "compact_if_needed",
            COp::FreezeAll => "freeze_all",
            COp::Clear => "clear",
        }
    }
}

#[derive(Clone, Debug, Serialize, Deserialize)]
pub struct Config {
    /// "props" | "adjacency"
    pub mode: String,
    pub chunk_capacity: usize,
}

const PKEYS: [&str; 3] = ["a", "b", "c"];

pub struct ExecResult {
    pub findings: Vec<(String, String)>,
    pub probes: BTreeMap<&'static str, u64>,
    pub steps_done: usize,
    pub nontrivial: bool,
    pub digest: u64,
}

// The two systems under the same history: the tree in /repo and the unmodified copy of the
// pinned commit (/verif/pinned). The verdict "wrong" always comes from the map model; the twin
// only decides whether a deviation is what the pinned tree already did (listed known finding,
// the run goes on) or something else (never listable, ends the run).
macro_rules! codec_sys {
    ($m:ident, $common:ident, $core:ident) => {
        mod $m {
            use std::collections::BTreeMap;

            use $common::types::{EdgeId, NodeId, PropertyKey, Value};
            use $core::graph::lpg::PropertyStorage;
            use $core::index::ChunkedAdjacency;

            use crate::model_graph::SV;

            fn tv(v: &SV) -> Value {
                match v {
                    SV::Int(i) => Value::Int64(*i),
                    SV::Str(s) => Value::String(s.as_str().into()),
                    SV::Bool(b) => Value::Bool(*b),
                    SV::F(b) => Value::Float64(f64::from_bits(*b)),
                    _ => Value::Null,
                }
            }
            fn fv(v: &Value) -> SV {
                match v {
                    Value::Int64(i) => SV::Int(*i),
                    Value::String(s) => SV::Str(s.to_string()),
                    Value::Bool(b) => SV::Bool(*b),
                    Value::Float64(f) => SV::F(f.to_bits()),
                    Value::Null => SV::Null,
                    other => SV::Str(format!("{other:?}")),
                }
            }

            pub struct Props {
                st: PropertyStorage<NodeId>,
            }
            impl Props {
                pub fn new() -> Self {
                    Props { st: PropertyStorage::new() }
                }
                pub fn set(&self, id: u64, k: &str, v: &SV) {
                    self.st.set(NodeId::new(id), PropertyKey::new(k), tv(v));
                }
                pub fn remove(&self, id: u64, k: &str) -> Option<SV> {
                    self.st.remove(NodeId::new(id), &PropertyKey::new(k)).map(|v| fv(&v))
                }
                pub fn remove_all(&self, id: u64) {
                    self.st.remove_all(NodeId::new(id));
                }
                pub fn force_compress_all(&self) {
                    self.st.force_compress_all();
                }
                pub fn compress_all(&self) {
                    self.st.compress_all();
                }
                pub fn disable(&self, k: &str) {
                    self.st.enable_compression(&PropertyKey::new(k), Default::default());
                }
                pub fn is_compressed(&self, k: &str) -> bool {
                    self.st.compression_stats().get(&PropertyKey::new(k)).is_some_and(|s| s.codec.is_some())
                }
                pub fn any_compressed(&self) -> bool {
                    self.st.compression_stats().values().any(|s| s.codec.is_some())
                }
                pub fn get(&self, id: u64, k: &str) -> Option<SV> {
                    self.st.get(NodeId::new(id), &PropertyKey::new(k)).map(|v| fv(&v))
                }
                pub fn get_all(&self, id: u64) -> BTreeMap<String, SV> {
                    self.st.get_all(NodeId::new(id)).iter().map(|(k, v)| (k.as_str().to_string(), fv(v))).collect()
                }
                pub fn get_batch(&self, ids: &[u64], k: &str) -> Vec<Option<SV>> {
                    let idv: Vec<NodeId> = ids.iter().map(|i| NodeId::new(*i)).collect();
                    self.st.get_batch(&idv, &PropertyKey::new(k)).iter().map(|v| v.as_ref().map(fv)).collect()
                }
            }

            pub struct Adj {
                adj: ChunkedAdjacency,
            }
            impl Adj {
                pub fn new(chunk_capacity: usize) -> Self {
                    Adj { adj: if chunk_capacity == 64 { ChunkedAdjacency::new() } else { ChunkedAdjacency::with_chunk_capacity(chunk_capacity) } }
                }
                pub fn add_edge(&self, s: u64, d: u64, e: u64) {
                    self.adj.add_edge(NodeId::new(s), NodeId::new(d), EdgeId::new(e));
                }
                pub fn mark_deleted(&self, s: u64, e: u64) {
                    self.adj.mark_deleted(NodeId::new(s), EdgeId::new(e));
                }
                pub fn compact(&self) {
                    self.adj.compact();
                }
                pub fn compact_if_needed(&self) {
                    self.adj.compact_if_needed();
                }
                pub fn freeze_all(&self) {
                    self.adj.freeze_all();
                }
                pub fn clear(&self) {
                    self.adj.clear();
                }
                pub fn cold_entries(&self) -> usize {
                    self.adj.memory_stats().cold_entries
                }
                pub fn edges_from(&self, s: u64) -> Vec<(u64, u64)> {
                    let mut v: Vec<(u64, u64)> = self.adj.edges_from(NodeId::new(s)).iter().map(|(d, e)| (d.as_u64(), e.as_u64())).collect();
                    v.sort_unstable();
                    v
                }
                pub fn neighbors(&self, s: u64) -> Vec<u64> {
                    let mut v: Vec<u64> = self.adj.neighbors(NodeId::new(s)).iter().map(|n| n.as_u64()).collect();
                    v.sort_unstable();
                    v
                }
                pub fn out_degree(&self, s: u64) -> usize {
                    self.adj.out_degree(NodeId::new(s))
                }
                pub fn active_edge_count(&self) -> usize {
                    self.adj.active_edge_count()
                }
            }
        }
    };
}

codec_sys!(real, grafeo_common, grafeo_core);
codec_sys!(pin, pinned_common, pinned_core);

/// Records a deviation from the model; returns true when the run has to stop (the deviation
/// is not the pinned tree's own).
fn deviation(findings: &mut Vec<(String, String)>, probes: &mut BTreeMap<&'static str, u64>, base: String, same_as_pinned: bool, detail: String) -> bool {
    let sig = if same_as_pinned { format!("{base} | as-pinned-tree") } else { format!("{base} | differs-from-pinned-tree") };
    if !findings.iter().any(|(s, _)| *s == sig) {
        findings.push((sig, detail));
    }
    if same_as_pinned {
        *probes.entry("deviation_shared_with_pinned_tree_run_continues").or_insert(0) += 1;
    }
    !same_as_pinned
}

fn exec_props(ops: &[COp]) -> ExecResult {
    let st = real::Props::new();
    let pst = pin::Props::new();
    let mut m: BTreeMap<(u64, u8), SV> = BTreeMap::new();
    let mut findings: Vec<(String, String)> = Vec::new();
    let mut probes: BTreeMap<&'static str, u64> = BTreeMap::new();
    let mut compressed_once = false;
    let mut since_compress = "never-compressed";
    let mut digest = 0u64;
    let mut steps_done = 0;
    let mut ids: BTreeSet<u64> = BTreeSet::new();
    let mut compress_cycles = 0u64;
    'ops: for (i, op) in ops.iter().enumerate() {
        match op {
            COp::Set(id, k, v) => {
                st.set(*id, PKEYS[*k as usize % 3], v);
                pst.set(*id, PKEYS[*k as usize % 3], v);
                m.insert((*id, *k % 3), v.clone());
                ids.insert(*id);
            }
            COp::Remove(id, k) => {
                let got = st.remove(*id, PKEYS[*k as usize % 3]);
                let pgot = pst.remove(*id, PKEYS[*k as usize % 3]);
                let want = m.remove(&(*id, *k % 3));
                if got != want && deviation(&mut findings, &mut probes, format!("C15 | props | remove-return | state={since_compress}"), got == pgot, format!("step {i}: {got:?} vs {want:?} (pinned tree {pgot:?})")) {
                    break 'ops;
                }
            }
            COp::RemoveAll(id) => {
                st.remove_all(*id);
                pst.remove_all(*id);
                m.retain(|(x, _), _| x != id);
            }
            COp::ForceCompressAll => {
                st.force_compress_all();
                pst.force_compress_all();
                if st.any_compressed() {
                    compressed_once = true;
                    since_compress = "compressed";
                    compress_cycles += 1;
                    *probes.entry("column_compressed").or_insert(0) += 1;
                    if compress_cycles == 2 {
                        *probes.entry("second_compression_in_one_history").or_insert(0) += 1;
                    }
                }
            }
            COp::CompressAll => {
                st.compress_all();
                pst.compress_all();
            }
            COp::DisableCompression(k) => {
                let key = PKEYS[*k as usize % 3];
                let was = st.is_compressed(key);
                st.disable(key);
                pst.disable(key);
                if was {
                    *probes.entry("column_decompressed").or_insert(0) += 1;
                    if !st.any_compressed() {
                        since_compress = "decompressed";
                    }
                }
            }
            _ => continue,
        }
        steps_done = i + 1;
        digest = digest.rotate_left(3) ^ fnv(op.kind().as_bytes()) ^ m.len() as u64;
        // reads
        for id in &ids {
            for k in 0..3u8 {
                let key = PKEYS[k as usize];
                let got = st.get(*id, key);
                let want = m.get(&(*id, k)).cloned();
                if got != want {
                    let pgot = pst.get(*id, key);
                    let class = if got.is_none() { "value-lost" } else if want.is_none() { "value-resurrected" } else { "value-changed" };
                    if deviation(&mut findings, &mut probes, format!("C15 | props | get | {class} | state={since_compress}"), got == pgot, format!("step {i} (after {}): id {id} key {key}: {got:?} vs {want:?} (pinned tree {pgot:?})", op.kind())) {
                        break 'ops;
                    }
                }
            }
            let all = st.get_all(*id);
            let want: BTreeMap<String, SV> = m.iter().filter(|((x, _), _)| x == id).map(|((_, k), v)| (PKEYS[*k as usize].to_string(), v.clone())).collect();
            if all != want {
                let pall = pst.get_all(*id);
                if deviation(&mut findings, &mut probes, format!("C15 | props | get_all | mismatch | state={since_compress}"), all == pall, format!("step {i} (after {}): id {id}: {all:?} vs {want:?} (pinned tree {pall:?})", op.kind())) {
                    break 'ops;
                }
            }
        }
        if !ids.is_empty() {
            let idv: Vec<u64> = ids.iter().copied().collect();
            for k in 0..3u8 {
                let got = st.get_batch(&idv, PKEYS[k as usize]);
                let want: Vec<Option<SV>> = ids.iter().map(|id| m.get(&(*id, k)).cloned()).collect();
                if got != want {
                    let pgot = pst.get_batch(&idv, PKEYS[k as usize]);
                    if deviation(&mut findings, &mut probes, format!("C15 | props | get_batch | mismatch | state={since_compress}"), got == pgot, format!("step {i} (after {}): key {}: {got:?} vs {want:?} (pinned tree {pgot:?})", op.kind(), PKEYS[k as usize])) {
                        break 'ops;
                    }
                }
            }
        }
    }
    ExecResult { findings, probes, steps_done, nontrivial: compressed_once || steps_done >= 4, digest }
}

fn exec_adj(cfg: &Config, ops: &[COp]) -> ExecResult {
    let adj = real::Adj::new(cfg.chunk_capacity);
    let padj = pin::Adj::new(cfg.chunk_capacity);
    // live edges in insertion order: (src, dst, eid)
    let mut live: Vec<(u64, u64, u64)> = Vec::new();
    let mut next_eid = 0u64;
    let mut srcs: BTreeSet<u64> = BTreeSet::new();
    let mut findings: Vec<(String, String)> = Vec::new();
    let mut probes: BTreeMap<&'static str, u64> = BTreeMap::new();
    let mut digest = 0u64;
    let mut steps_done = 0;
    let mut max_list = 0usize;
    let mut state = "hot";
    'ops: for (i, op) in ops.iter().enumerate() {
        match op {
            COp::AddEdge(s, d) => {
                adj.add_edge(*s, *d, next_eid);
                padj.add_edge(*s, *d, next_eid);
                live.push((*s, *d, next_eid));
                next_eid += 1;
                srcs.insert(*s);
                let n = live.iter().filter(|e| e.0 == *s).count();
                max_list = max_list.max(n);
            }
            COp::DeleteNth(n) => {
                if live.is_empty() {
                    continue;
                }
                let (s, _, e) = live.remove(*n as usize % live.len());
                adj.mark_deleted(s, e);
                padj.mark_deleted(s, e);
            }
            COp::Compact => {
                adj.compact();
                padj.compact();
                *probes.entry("compaction").or_insert(0) += 1;
                if adj.cold_entries() > 0 {
                    state = "has-cold-chunks";
                    *probes.entry("adjacency_went_cold").or_insert(0) += 1;
                }
            }
            COp::CompactIfNeeded => {
                adj.compact_if_needed();
                padj.compact_if_needed();
                if adj.cold_entries() > 0 {
                    state = "has-cold-chunks";
                }
            }
            COp::FreezeAll => {
                adj.freeze_all();
                padj.freeze_all();
                *probes.entry("freeze_all").or_insert(0) += 1;
                if adj.cold_entries() > 0 {
                    state = "has-cold-chunks";
                    *probes.entry("adjacency_went_cold").or_insert(0) += 1;
                }
            }
            COp::Clear => {
                adj.clear();
                padj.clear();
                live.clear();
                state = "hot";
            }
            _ => continue,
        }
        steps_done = i + 1;
        digest = digest.rotate_left(3) ^ fnv(op.kind().as_bytes()) ^ live.len() as u64;
        if (i + 1) % 4 != 0 && i + 1 != ops.len() && !matches!(op, COp::Compact | COp::FreezeAll | COp::CompactIfNeeded | COp::Clear | COp::DeleteNth(_)) {
            continue; // full comparison every 4th add and after every structural operation
        }
        for s in &srcs {
            let got = adj.edges_from(*s);
            let mut want: Vec<(u64, u64)> = live.iter().filter(|e| e.0 == *s).map(|e| (e.1, e.2)).collect();
            want.sort_unstable();
            if got != want {
                let pgot = padj.edges_from(*s);
                let class = if got.len() < want.len() { "entry-lost" } else if got.len() > want.len() { "deleted-entry-visible-or-duplicated" } else { "entry-changed" };
                if deviation(&mut findings, &mut probes, format!("C15 | adjacency | edges_from | {class} | state={state}"), got == pgot, format!("step {i} (after {}): src {s}: {} entries vs {} expected; first differences: {:?} vs {:?}", op.kind(), got.len(), want.len(), got.iter().filter(|x| !want.contains(x)).take(3).collect::<Vec<_>>(), want.iter().filter(|x| !got.contains(x)).take(3).collect::<Vec<_>>())) {
                    break 'ops;
                }
            }
            let nb = adj.neighbors(*s);
            let mut wn: Vec<u64> = want.iter().map(|(d, _)| *d).collect();
            wn.sort_unstable();
            if nb != wn && deviation(&mut findings, &mut probes, format!("C15 | adjacency | neighbors | mismatch | state={state}"), nb == padj.neighbors(*s), format!("step {i} (after {}): src {s}: {nb:?} vs {wn:?}", op.kind())) {
                break 'ops;
            }
            if adj.out_degree(*s) != want.len() && deviation(&mut findings, &mut probes, format!("C15 | adjacency | out_degree | mismatch | state={state}"), adj.out_degree(*s) == padj.out_degree(*s), format!("step {i} (after {}): src {s}: {} vs {}", op.kind(), adj.out_degree(*s), want.len())) {
                break 'ops;
            }
        }
        if adj.active_edge_count() != live.len() && deviation(&mut findings, &mut probes, format!("C15 | adjacency | active_edge_count | mismatch | state={state}"), adj.active_edge_count() == padj.active_edge_count(), format!("step {i} (after {}): {} vs {}", op.kind(), adj.active_edge_count(), live.len())) {
            break 'ops;
        }
    }
    for (t, name) in [(64usize, "list_crossed_64"), (128, "list_crossed_128"), (320, "list_crossed_320")] {
        if max_list >= t {
            *probes.entry(name).or_insert(0) += 1;
        }
    }
    ExecResult { findings, probes, steps_done, nontrivial: steps_done >= 4, digest }
}

pub fn exec(cfg: &Config, ops: &[COp]) -> ExecResult {
    if cfg.mode == "props" { exec_props(ops) } else { exec_adj(cfg, ops) }
}

pub fn generate(rng: &mut Prng, thorough: bool) -> (Config, Vec<COp>) {
    if rng.chance(1, 2) {
        // property columns: values chosen so that each codec is reached
        let len = rng.range(4, if thorough { 160 } else { 80 }) as usize;
        let n_ids = rng.range(2, 40);
        let style = rng.below(6);
        let mut ops = Vec::new();
        let mut u = 0i64;
        while ops.len() < len {
            u += 1;
            let id = rng.below(n_ids);
            let k = rng.below(3) as u8;
            let v = match style {
                0 => SV::Int(7),                                                   // all equal → RLE
                1 => SV::Int(u * 3),                                               // increasing → delta
                2 => SV::Int(*rng.pick(&[i64::MIN, i64::MAX, 0, -1, 1])),         // extremes
                3 => SV::Str(format!("s{}", rng.below(3))),                       // repeated strings → dictionary
                4 => SV::Bool(rng.chance(1, 2)),                                   // booleans
                _ => match rng.below(4) {
                    0 => SV::Int(rng.below(1000) as i64),
                    1 => SV::Str(format!("t{}", rng.below(5))),
                    2 => SV::Bool(rng.chance(1, 2)),
                    _ => SV::f(u as f64),
                },
            };
            let op = match rng.below(20) {
                0..=13 => COp::Set(id, k, v),
                14 => COp::Remove(id, k),
                15 if rng.chance(1, 3) => COp::RemoveAll(id),
                16 | 17 => COp::ForceCompressAll,
                18 => COp::CompressAll,
                19 => COp::DisableCompression(k),
                _ => continue,
            };
            ops.push(op);
        }
        // make sure the interesting sequence occurs: fill, compress, read, decompress, read
        if rng.chance(1, 2) {
            ops.push(COp::ForceCompressAll);
            ops.push(COp::DisableCompression(0));
            ops.push(COp::DisableCompression(1));
            ops.push(COp::DisableCompression(2));
        }
        (Config { mode: "props".into(), chunk_capacity: 64 }, ops)
    } else {
        let chunk_capacity = *rng.pick(&[1usize, 2, 4, 64, 64]);
        let big = rng.chance(1, if thorough { 3 } else { 8 });
        let len = if big { rng.range(100, 700) as usize } else { rng.range(4, 90) as usize };
        let n_src = if big { 2 } else { rng.range(1, 4) };
        // destination node 0 in a one-entry cold chunk hits a listed known finding
        // (DeltaBitPacked [0]); keep it out of 9 runs in 10 so that cold chunks are judged strictly
        let zero_dst = rng.chance(1, 10);
        let mut ops = Vec::new();
        while ops.len() < len {
            let op = match rng.below(40) {
                0..=27 => COp::AddEdge(if big && rng.chance(5, 6) { 0 } else { rng.below(n_src) }, if zero_dst { rng.below(6) } else { 1 + rng.below(5) }),
                28..=32 => COp::DeleteNth(rng.next_u64() as u32),
                33 | 34 => COp::Compact,
                35 | 36 => COp::CompactIfNeeded,
                37 | 38 => COp::FreezeAll,
                _ => {
                    if rng.chance(1, 6) {
                        COp::Clear
                    } else {
                        continue;
                    }
                }
            };
            ops.push(op);
        }
        (Config { mode: "adjacency".into(), chunk_capacity }, ops)
    }
}

fn run_guarded(cfg: &Config, ops: &[COp]) -> ExecResult {
    match guarded(|| exec(cfg, ops)) {
        Ok(r) => r,
        Err(msg) => ExecResult { findings: vec![(format!("C15 | {} | panic | {}", cfg.mode, panic_class(&msg)), msg)], probes: BTreeMap::new(), steps_done: 0, nontrivial: true, digest: 0 },
    }
}

pub fn replay_doc(cfg: &Config, ops: &[COp]) -> serde_json::Value {
    json!({"engine": "CODEC", "config": cfg, "ops": ops, "schedule": null, "faults": []})
}

pub fn run_one(seed: u64, thorough: bool) -> RunOut {
    let mut rng = Prng::new(seed);
    let (cfg, ops) = generate(&mut rng, thorough);
    let res = run_guarded(&cfg, &ops);
    let mut out = RunOut::default();
    out.hash = fnv(&serde_json::to_vec(&(&cfg, &ops)).unwrap());
    out.shape = fnv(ops.iter().map(|o| o.kind()).collect::<Vec<_>>().join(",").as_bytes());
    out.nontrivial = res.nontrivial;
    out.steps = res.steps_done as u64;
    out.probes = res.probes;
    out.digest = res.digest;
    if ops.len() <= 14 {
        out.sample = Some(json!({"seed": seed, "config": cfg, "ops": ops}));
    }
    for (sig, detail) in res.findings {
        out.findings.push(Finding { property: "C15".into(), signature: sig, detail, replay: replay_doc(&cfg, &ops) });
    }
    out
}

pub fn minimise(f: &Finding) -> Finding {
    let cfg: Config = serde_json::from_value(f.replay["config"].clone()).unwrap();
    let ops: Vec<COp> = serde_json::from_value(f.replay["ops"].clone()).unwrap();
    let sig = f.signature.clone();
    let mut fails = |cand: &[COp]| run_guarded(&cfg, cand).findings.iter().any(|(s, _)| *s == sig);
    let small = if fails(&ops) { crate::fw::ddmin(&ops, &mut fails, 600) } else { ops.clone() };
    let res = run_guarded(&cfg, &small);
    let detail = res.findings.iter().find(|(s, _)| *s == sig).map(|(_, d)| d.clone()).unwrap_or_else(|| f.detail.clone());
    Finding { property: f.property.clone(), signature: sig, detail, replay: replay_doc(&cfg, &small) }
}

pub fn replay(doc: &serde_json::Value) -> Vec<(String, String)> {
    let cfg: Config = serde_json::from_value(doc["config"].clone()).unwrap();
    let ops: Vec<COp> = serde_json::from_value(doc["ops"].clone()).unwrap();
    for (i, o) in ops.iter().enumerate().take(60) {
        println!("  {i}: {o:?}");
    }
    run_guarded(&cfg, &ops).findings
}
