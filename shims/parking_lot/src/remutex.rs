// Copyright 2016 Amanieu d'Antras
//
// Licensed under the Apache License, Version 2.0, <LICENSE-APACHE or
// http://apache.org/licenses/LICENSE-2.0> or the MIT license <LICENSE-MIT or
// http://opensource.org/licenses/MIT>, at your option. This file may not be
// copied, modified, or distributed except according to those terms.

use crate::raw_mutex::RawMutex;
use core::num::NonZeroUsize;
use lock_api::{self, GetThreadId};

/// Implementation of the `GetThreadId` trait for `lock_api::ReentrantMutex`.
pub struct RawThreadId;

unsafe impl GetThreadId for RawThreadId {
    const INIT: RawThreadId = RawThreadId;

    fn nonzero_thread_id(&self) -> NonZeroUsize {
        // The address of a thread-local variable is guaranteed to be unique to the
        // current thread, and is also guaranteed to be non-zero. The variable has to have a
        // non-zero size to guarantee it has a unique address for each thread.
        thread_local!(static KEY: u8 = 0);
        KEY.with(|x| {
            NonZeroUsize::new(x as *const _ as usize)
                .expect("thread-local variable address is null")
        })
    }
}

/// A mutex which can be recursively locked by a single thread.
///
/// This type is identical to `Mutex` except for the following points:
///
/// - Locking multiple times from the same thread will work correctly instead of
///   deadlocking.
/// - `ReentrantMutexGuard` does not give mutable references to the locked data.
///   Use a `RefCell` if you need this.
///
/// See [`Mutex`](crate::Mutex) for more details about the underlying mutex
/// primitive.
pub type ReentrantMutex<T> = lock_api::ReentrantMutex<RawMutex, RawThreadId, T>;

/// Creates a new reentrant mutex in an unlocked state ready for use.
///
/// This allows creating a reentrant mutex in a constant context on stable Rust.
pub const fn const_reentrant_mutex<T>(val: T) -> ReentrantMutex<T> {
    ReentrantMutex::const_new(
        <RawMutex as lock_api::RawMutex>::INIT,
        <RawThreadId as lock_api::GetThreadId>::INIT,
        val,
    )
}

/// An RAII implementation of a "scoped lock" of a reentrant mutex. When this structure
/// is dropped (falls out of scope), the lock will be unlocked.
///
/// The data protected by the mutex can be accessed through this guard via its
/// `Deref` implementation.
pub type ReentrantMutexGuard<'a, T> = lock_api::ReentrantMutexGuard<'a, RawMutex, RawThreadId, T>;

/// An RAII mutex guard returned by `ReentrantMutexGuard::map`, which can point to a
/// subfield of the protected data.
///
/// The main difference between `MappedReentrantMutexGuard` and `ReentrantMutexGuard` is that the
/// former doesn't support temporarily unlocking and re-locking, since that
/// could introduce soundness issues if the locked object is modified by another
/// thread.
pub type MappedReentrantMutexGuard<'a, T> =
    lock_api::MappedReentrantMutexGuard<'a, RawMutex, RawThreadId, T>;

#[cfg(test)]
mod tests {
    use crate::ReentrantMutex;
    use crate::ReentrantMutexGuard;
    use std::cell::RefCell;
    use std::sync::mpsc::channel;
    use std::sync::Arc;
    use std::thread;

    #[cfg(feature = "serde")]
    use bincode::{deserialize, serialize};

    #[test]
    fn smoke() {
        let m = ReentrantMutex::new(2);
        {
            let a = m.lock();
            {
                let b = m.lock();
                {
                    let c = m.lock();
                    assert_eq!(*c, 2);
                }
                assert_eq!(*b, 2);
            }
            assert_eq!(*a, 2);
        }
    }

    #[test]
    fn is_mutex() {
        let m = Arc::new(ReentrantMutex::new(RefCell::new(0)));
        let m2 = m.clone();
        let lock = m.lock();
        let child = thread::spawn(move || {
            let lock = m2.lock();
            assert_eq!(*lock.borrow(), 4950);
        });
        for i in 0..100 {
            let lock = m.lock();
            *lock.borrow_mut() += i;
        }
        drop(lock);
        child.join().unwrap();
    }

    #[test]
    fn trylock_works() {
        let m = Arc::new(ReentrantMutex::new(()));
        let m2 = m.clone();
        let _lock = m.try_lock();
        let _lock2 = m.try_lock();
        thread::spawn(move || {
            let lock = m2.try_lock();
            assert!(lock.is_none());
        })
        .join()
        .unwrap();
        let _lock3 = m.try_lock();
    }

    #[test]
    fn test_reentrant_mutex_debug() {
        let mutex = ReentrantMutex::new(vec![0u8, 10]);

        assert_eq!(format!("{:?}", mutex), "ReentrantMutex { data: [0, 10] }");
    }

    #[test]
    fn test_reentrant_mutex_bump() {
        let mutex = Arc::new(ReentrantMutex::new(()));
        let mutex2 = mutex.clone();

        let mut guard = mutex.lock();

        let (tx, rx) = channel();

        thread::spawn(move || {
            let _guard = mutex2.lock();
            tx.send(()).unwrap();
        });

        // `bump()` repeatedly until the thread starts up and requests the lock
        while rx.try_recv().is_err() {
            ReentrantMutexGuard::bump(&mut guard);
        }
    }

    #[cfg(feature = "serde")]
    #[test]
    fn test_serde() {
        let contents: Vec<u8> = vec![0, 1, 2];
        let mutex = ReentrantMutex::new(contents.clone());

        let serialized = serialize(&mutex).unwrap();
        let deserialized: ReentrantMutex<Vec<u8>> = deserialize(&serialized).unwrap();

        assert_eq!(*(mutex.lock()), *(deserialized.lock()));
        assert_eq!(contents, *(deserialized.lock()));
    }
}
