//! Simulation seam added by /verif (not part of upstream parking_lot 0.12.5).
//!
//! When hooks are installed on the current OS thread, every blocking acquire of a
//! `RawMutex` / `RawRwLock` is routed through `Hooks::acquire`, which is handed a
//! non-blocking `try` closure and decides when (and whether) the caller may proceed;
//! every release is reported through `Hooks::released`. With no hooks installed the
//! upstream fast paths run untouched.

use core::cell::Cell;

/// What kind of acquisition is being attempted.
#[derive(Clone, Copy, Debug, PartialEq, Eq)]
pub enum Kind {
    /// `Mutex::lock`
    Mutex,
    /// `RwLock::write`
    Exclusive,
    /// `RwLock::read`
    Shared,
}

/// Hook table installed per OS thread by the simulator.
pub struct Hooks {
    /// Must return only once `try_fn()` has returned true.
    pub acquire: fn(addr: usize, kind: Kind, try_fn: &mut dyn FnMut() -> bool),
    /// Called after the lock at `addr` has been released.
    pub released: fn(addr: usize, kind: Kind),
}

thread_local! {
    static HOOKS: Cell<Option<&'static Hooks>> = const { Cell::new(None) };
}

/// Installs (or removes, with `None`) the hook table for the current OS thread.
pub fn install(h: Option<&'static Hooks>) {
    HOOKS.with(|c| c.set(h));
}

#[inline]
pub(crate) fn hooks() -> Option<&'static Hooks> {
    HOOKS.try_with(|c| c.get()).unwrap_or(None)
}
