//! \[Experimental\] Deadlock detection
//!
//! This feature is optional and can be enabled via the `deadlock_detection` feature flag.
//!
//! # Example
//!
//! ```
//! #[cfg(feature = "deadlock_detection")]
//! { // only for #[cfg]
//! use std::thread;
//! use std::time::Duration;
//! use parking_lot::deadlock;
//!
//! // Create a background thread which checks for deadlocks every 10s
//! thread::spawn(move || {
//!     loop {
//!         thread::sleep(Duration::from_secs(10));
//!         let deadlocks = deadlock::check_deadlock();
//!         if deadlocks.is_empty() {
//!             continue;
//!         }
//!
//!         println!("{} deadlocks detected", deadlocks.len());
//!         for (i, threads) in deadlocks.iter().enumerate() {
//!             println!("Deadlock #{}", i);
//!             for t in threads {
//!                 println!("Thread Id {:#?}", t.thread_id());
//!                 println!("{:#?}", t.backtrace());
//!             }
//!         }
//!     }
//! });
//! } // only for #[cfg]
//! ```

#[cfg(feature = "deadlock_detection")]
pub use parking_lot_core::deadlock::check_deadlock;
pub(crate) use parking_lot_core::deadlock::{acquire_resource, release_resource};

#[cfg(test)]
#[cfg(feature = "deadlock_detection")]
mod tests {
    use crate::{Mutex, ReentrantMutex, RwLock};
    use std::sync::{Arc, Barrier};
    use std::thread::{self, sleep};
    use std::time::Duration;

    // We need to serialize these tests since deadlock detection uses global state
    static DEADLOCK_DETECTION_LOCK: Mutex<()> = crate::const_mutex(());

    fn check_deadlock() -> bool {
        use parking_lot_core::deadlock::check_deadlock;
        !check_deadlock().is_empty()
    }

    #[test]
    fn test_mutex_deadlock() {
        let _guard = DEADLOCK_DETECTION_LOCK.lock();

        let m1: Arc<Mutex<()>> = Default::default();
        let m2: Arc<Mutex<()>> = Default::default();
        let m3: Arc<Mutex<()>> = Default::default();
        let b = Arc::new(Barrier::new(4));

        let m1_ = m1.clone();
        let m2_ = m2.clone();
        let m3_ = m3.clone();
        let b1 = b.clone();
        let b2 = b.clone();
        let b3 = b.clone();

        assert!(!check_deadlock());

        let _t1 = thread::spawn(move || {
            let _g = m1.lock();
            b1.wait();
            let _ = m2_.lock();
        });

        let _t2 = thread::spawn(move || {
            let _g = m2.lock();
            b2.wait();
            let _ = m3_.lock();
        });

        let _t3 = thread::spawn(move || {
            let _g = m3.lock();
            b3.wait();
            let _ = m1_.lock();
        });

        assert!(!check_deadlock());

        b.wait();
        sleep(Duration::from_millis(50));
        assert!(check_deadlock());

        assert!(!check_deadlock());
    }

    #[test]
    fn test_mutex_deadlock_reentrant() {
        let _guard = DEADLOCK_DETECTION_LOCK.lock();

        let m1: Arc<Mutex<()>> = Default::default();

        assert!(!check_deadlock());

        let _t1 = thread::spawn(move || {
            let _g = m1.lock();
            let _ = m1.lock();
        });

        sleep(Duration::from_millis(50));
        assert!(check_deadlock());

        assert!(!check_deadlock());
    }

    #[test]
    fn test_remutex_deadlock() {
        let _guard = DEADLOCK_DETECTION_LOCK.lock();

        let m1: Arc<ReentrantMutex<()>> = Default::default();
        let m2: Arc<ReentrantMutex<()>> = Default::default();
        let m3: Arc<ReentrantMutex<()>> = Default::default();
        let b = Arc::new(Barrier::new(4));

        let m1_ = m1.clone();
        let m2_ = m2.clone();
        let m3_ = m3.clone();
        let b1 = b.clone();
        let b2 = b.clone();
        let b3 = b.clone();

        assert!(!check_deadlock());

        let _t1 = thread::spawn(move || {
            let _g = m1.lock();
            let _g = m1.lock();
            b1.wait();
            let _ = m2_.lock();
        });

        let _t2 = thread::spawn(move || {
            let _g = m2.lock();
            let _g = m2.lock();
            b2.wait();
            let _ = m3_.lock();
        });

        let _t3 = thread::spawn(move || {
            let _g = m3.lock();
            let _g = m3.lock();
            b3.wait();
            let _ = m1_.lock();
        });

        assert!(!check_deadlock());

        b.wait();
        sleep(Duration::from_millis(50));
        assert!(check_deadlock());

        assert!(!check_deadlock());
    }

    #[test]
    fn test_rwlock_deadlock() {
        let _guard = DEADLOCK_DETECTION_LOCK.lock();

        let m1: Arc<RwLock<()>> = Default::default();
        let m2: Arc<RwLock<()>> = Default::default();
        let m3: Arc<RwLock<()>> = Default::default();
        let b = Arc::new(Barrier::new(4));

        let m1_ = m1.clone();
        let m2_ = m2.clone();
        let m3_ = m3.clone();
        let b1 = b.clone();
        let b2 = b.clone();
        let b3 = b.clone();

        assert!(!check_deadlock());

        let _t1 = thread::spawn(move || {
            let _g = m1.read();
            b1.wait();
            let _g = m2_.write();
        });

        let _t2 = thread::spawn(move || {
            let _g = m2.read();
            b2.wait();
            let _g = m3_.write();
        });

        let _t3 = thread::spawn(move || {
            let _g = m3.read();
            b3.wait();
            let _ = m1_.write();
        });

        assert!(!check_deadlock());

        b.wait();
        sleep(Duration::from_millis(50));
        assert!(check_deadlock());

        assert!(!check_deadlock());
    }

    #[cfg(rwlock_deadlock_detection_not_supported)]
    #[test]
    fn test_rwlock_deadlock_reentrant() {
        let _guard = DEADLOCK_DETECTION_LOCK.lock();

        let m1: Arc<RwLock<()>> = Default::default();

        assert!(!check_deadlock());

        let _t1 = thread::spawn(move || {
            let _g = m1.read();
            let _ = m1.write();
        });

        sleep(Duration::from_millis(50));
        assert!(check_deadlock());

        assert!(!check_deadlock());
    }
}
