// Copyright 2016 Amanieu d'Antras
//
// Licensed under the Apache License, Version 2.0, <LICENSE-APACHE or
// http://apache.org/licenses/LICENSE-2.0> or the MIT license <LICENSE-MIT or
// http://opensource.org/licenses/MIT>, at your option. This file may not be
// copied, modified, or distributed except according to those terms.

//! This library provides implementations of `Mutex`, `RwLock`, `Condvar` and
//! `Once` that are smaller, faster and more flexible than those in the Rust
//! standard library. It also provides a `ReentrantMutex` type.

#![warn(missing_docs)]
#![warn(rust_2018_idioms)]

mod condvar;
mod elision;
mod fair_mutex;
mod mutex;
mod once;
mod raw_fair_mutex;
mod raw_mutex;
mod raw_rwlock;
mod remutex;
mod rwlock;
mod util;
pub mod sim;

#[cfg(feature = "deadlock_detection")]
pub mod deadlock;
#[cfg(not(feature = "deadlock_detection"))]
mod deadlock;

// If deadlock detection is enabled, we cannot allow lock guards to be sent to
// other threads.
#[cfg(all(feature = "send_guard", feature = "deadlock_detection"))]
compile_error!("the `send_guard` and `deadlock_detection` features cannot be used together");
#[cfg(feature = "send_guard")]
type GuardMarker = lock_api::GuardSend;
#[cfg(not(feature = "send_guard"))]
type GuardMarker = lock_api::GuardNoSend;

pub use self::condvar::{Condvar, WaitTimeoutResult};
pub use self::fair_mutex::{const_fair_mutex, FairMutex, FairMutexGuard, MappedFairMutexGuard};
pub use self::mutex::{const_mutex, MappedMutexGuard, Mutex, MutexGuard};
pub use self::once::{Once, OnceState};
pub use self::raw_fair_mutex::RawFairMutex;
pub use self::raw_mutex::RawMutex;
pub use self::raw_rwlock::RawRwLock;
pub use self::remutex::{
    const_reentrant_mutex, MappedReentrantMutexGuard, RawThreadId, ReentrantMutex,
    ReentrantMutexGuard,
};
pub use self::rwlock::{
    const_rwlock, MappedRwLockReadGuard, MappedRwLockWriteGuard, RwLock, RwLockReadGuard,
    RwLockUpgradableReadGuard, RwLockWriteGuard,
};
pub use ::lock_api;

#[cfg(feature = "arc_lock")]
pub use self::lock_api::{
    ArcMutexGuard, ArcReentrantMutexGuard, ArcRwLockReadGuard, ArcRwLockUpgradableReadGuard,
    ArcRwLockWriteGuard,
};
