// Copyright 2016 Amanieu d'Antras
//
// Licensed under the Apache License, Version 2.0, <LICENSE-APACHE or
// http://apache.org/licenses/LICENSE-2.0> or the MIT license <LICENSE-MIT or
// http://opensource.org/licenses/MIT>, at your option. This file may not be
// copied, modified, or distributed except according to those terms.

use crate::elision::{have_elision, AtomicElisionExt};
use crate::raw_mutex::{TOKEN_HANDOFF, TOKEN_NORMAL};
use crate::util;
use core::{
    cell::Cell,
    sync::atomic::{AtomicUsize, Ordering},
};
use lock_api::{RawRwLock as RawRwLock_, RawRwLockUpgrade};
use parking_lot_core::{
    self, deadlock, FilterOp, ParkResult, ParkToken, SpinWait, UnparkResult, UnparkToken,
};
use std::time::{Duration, Instant};

// This reader-writer lock implementation is based on Boost's upgrade_mutex:
// https://github.com/boostorg/thread/blob/fc08c1fe2840baeeee143440fba31ef9e9a813c8/include/boost/thread/v2/shared_mutex.hpp#L432
//
// This implementation uses 2 wait queues, one at key [addr] and one at key
// [addr + 1]. The primary queue is used for all new waiting threads, and the
// secondary queue is used by the thread which has acquired WRITER_BIT but is
// waiting for the remaining readers to exit the lock.
//
// This implementation is fair between readers and writers since it uses the
// order in which threads first started queuing to alternate between read phases
// and write phases. In particular is it not vulnerable to write starvation
// since readers will block if there is a pending writer.

// There is at least one thread in the main queue.
const PARKED_BIT: usize = 0b0001;
// There is a parked thread holding WRITER_BIT. WRITER_BIT must be set.
const WRITER_PARKED_BIT: usize = 0b0010;
// A reader is holding an upgradable lock. The reader count must be non-zero and
// WRITER_BIT must not be set.
const UPGRADABLE_BIT: usize = 0b0100;
// If the reader count is zero: a writer is currently holding an exclusive lock.
// Otherwise: a writer is waiting for the remaining readers to exit the lock.
const WRITER_BIT: usize = 0b1000;
// Mask of bits used to count readers.
const READERS_MASK: usize = !0b1111;
// Base unit for counting readers.
const ONE_READER: usize = 0b10000;

// Token indicating what type of lock a queued thread is trying to acquire
const TOKEN_SHARED: ParkToken = ParkToken(ONE_READER);
const TOKEN_EXCLUSIVE: ParkToken = ParkToken(WRITER_BIT);
const TOKEN_UPGRADABLE: ParkToken = ParkToken(ONE_READER | UPGRADABLE_BIT);

/// Raw reader-writer lock type backed by the parking lot.
pub struct RawRwLock {
    state: AtomicUsize,
}

unsafe impl lock_api::RawRwLock for RawRwLock {
    const INIT: RawRwLock = RawRwLock {
        state: AtomicUsize::new(0),
    };

    type GuardMarker = crate::GuardMarker;

    #[inline]
    fn lock_exclusive(&self) {
        if let Some(h) = crate::sim::hooks() {
            (h.acquire)(self as *const _ as usize, crate::sim::Kind::Exclusive, &mut || {
                lock_api::RawRwLock::try_lock_exclusive(self)
            });
            return;
        }
        if self
            .state
            .compare_exchange_weak(0, WRITER_BIT, Ordering::Acquire, Ordering::Relaxed)
            .is_err()
        {
            let result = self.lock_exclusive_slow(None);
            debug_assert!(result);
        }
        self.deadlock_acquire();
    }

    #[inline]
    fn try_lock_exclusive(&self) -> bool {
        if self
            .state
            .compare_exchange(0, WRITER_BIT, Ordering::Acquire, Ordering::Relaxed)
            .is_ok()
        {
            self.deadlock_acquire();
            true
        } else {
            false
        }
    }

    #[inline]
    unsafe fn unlock_exclusive(&self) {
        self.deadlock_release();
        if self
            .state
            .compare_exchange(WRITER_BIT, 0, Ordering::Release, Ordering::Relaxed)
            .is_err()
        {
            self.unlock_exclusive_slow(false);
        }
        if let Some(h) = crate::sim::hooks() {
            (h.released)(self as *const _ as usize, crate::sim::Kind::Exclusive);
        }
    }

    #[inline]
    fn lock_shared(&self) {
        if let Some(h) = crate::sim::hooks() {
            (h.acquire)(self as *const _ as usize, crate::sim::Kind::Shared, &mut || {
                lock_api::RawRwLock::try_lock_shared(self)
            });
            return;
        }
        if !self.try_lock_shared_fast(false) {
            let result = self.lock_shared_slow(false, None);
            debug_assert!(result);
        }
        self.deadlock_acquire();
    }

    #[inline]
    fn try_lock_shared(&self) -> bool {
        let result = if self.try_lock_shared_fast(false) {
            true
        } else {
            self.try_lock_shared_slow(false)
        };
        if result {
            self.deadlock_acquire();
        }
        result
    }

    #[inline]
    unsafe fn unlock_shared(&self) {
        self.deadlock_release();
        let state = if have_elision() {
            self.state.elision_fetch_sub_release(ONE_READER)
        } else {
            self.state.fetch_sub(ONE_READER, Ordering::Release)
        };
        if state & (READERS_MASK | WRITER_PARKED_BIT) == (ONE_READER | WRITER_PARKED_BIT) {
            self.unlock_shared_slow();
        }
        if let Some(h) = crate::sim::hooks() {
            (h.released)(self as *const _ as usize, crate::sim::Kind::Shared);
        }
    }

    #[inline]
    fn is_locked(&self) -> bool {
        let state = self.state.load(Ordering::Relaxed);
        state & (WRITER_BIT | READERS_MASK) != 0
    }

    #[inline]
    fn is_locked_exclusive(&self) -> bool {
        let state = self.state.load(Ordering::Relaxed);
        state & (WRITER_BIT) != 0
    }
}

unsafe impl lock_api::RawRwLockFair for RawRwLock {
    #[inline]
    unsafe fn unlock_shared_fair(&self) {
        // Shared unlocking is always fair in this implementation.
        self.unlock_shared();
    }

    #[inline]
    unsafe fn unlock_exclusive_fair(&self) {
        self.deadlock_release();
        if self
            .state
            .compare_exchange(WRITER_BIT, 0, Ordering::Release, Ordering::Relaxed)
            .is_ok()
        {
            return;
        }
        self.unlock_exclusive_slow(true);
    }

    #[inline]
    unsafe fn bump_shared(&self) {
        if self.state.load(Ordering::Relaxed) & WRITER_BIT != 0 {
            self.bump_shared_slow();
        }
    }

    #[inline]
    unsafe fn bump_exclusive(&self) {
        if self.state.load(Ordering::Relaxed) & PARKED_BIT != 0 {
            self.bump_exclusive_slow();
        }
    }
}

unsafe impl lock_api::RawRwLockDowngrade for RawRwLock {
    #[inline]
    unsafe fn downgrade(&self) {
        let state = self
            .state
            .fetch_add(ONE_READER - WRITER_BIT, Ordering::Release);

        // Wake up parked shared and upgradable threads if there are any
        if state & PARKED_BIT != 0 {
            self.downgrade_slow();
        }
    }
}

unsafe impl lock_api::RawRwLockTimed for RawRwLock {
    type Duration = Duration;
    type Instant = Instant;

    #[inline]
    fn try_lock_shared_for(&self, timeout: Self::Duration) -> bool {
        let result = if self.try_lock_shared_fast(false) {
            true
        } else {
            self.lock_shared_slow(false, util::to_deadline(timeout))
        };
        if result {
            self.deadlock_acquire();
        }
        result
    }

    #[inline]
    fn try_lock_shared_until(&self, timeout: Self::Instant) -> bool {
        let result = if self.try_lock_shared_fast(false) {
            true
        } else {
            self.lock_shared_slow(false, Some(timeout))
        };
        if result {
            self.deadlock_acquire();
        }
        result
    }

    #[inline]
    fn try_lock_exclusive_for(&self, timeout: Duration) -> bool {
        let result = if self
            .state
            .compare_exchange_weak(0, WRITER_BIT, Ordering::Acquire, Ordering::Relaxed)
            .is_ok()
        {
            true
        } else {
            self.lock_exclusive_slow(util::to_deadline(timeout))
        };
        if result {
            self.deadlock_acquire();
        }
        result
    }

    #[inline]
    fn try_lock_exclusive_until(&self, timeout: Instant) -> bool {
        let result = if self
            .state
            .compare_exchange_weak(0, WRITER_BIT, Ordering::Acquire, Ordering::Relaxed)
            .is_ok()
        {
            true
        } else {
            self.lock_exclusive_slow(Some(timeout))
        };
        if result {
            self.deadlock_acquire();
        }
        result
    }
}

unsafe impl lock_api::RawRwLockRecursive for RawRwLock {
    #[inline]
    fn lock_shared_recursive(&self) {
        if !self.try_lock_shared_fast(true) {
            let result = self.lock_shared_slow(true, None);
            debug_assert!(result);
        }
        self.deadlock_acquire();
    }

    #[inline]
    fn try_lock_shared_recursive(&self) -> bool {
        let result = if self.try_lock_shared_fast(true) {
            true
        } else {
            self.try_lock_shared_slow(true)
        };
        if result {
            self.deadlock_acquire();
        }
        result
    }
}

unsafe impl lock_api::RawRwLockRecursiveTimed for RawRwLock {
    #[inline]
    fn try_lock_shared_recursive_for(&self, timeout: Self::Duration) -> bool {
        let result = if self.try_lock_shared_fast(true) {
            true
        } else {
            self.lock_shared_slow(true, util::to_deadline(timeout))
        };
        if result {
            self.deadlock_acquire();
        }
        result
    }

    #[inline]
    fn try_lock_shared_recursive_until(&self, timeout: Self::Instant) -> bool {
        let result = if self.try_lock_shared_fast(true) {
            true
        } else {
            self.lock_shared_slow(true, Some(timeout))
        };
        if result {
            self.deadlock_acquire();
        }
        result
    }
}

unsafe impl lock_api::RawRwLockUpgrade for RawRwLock {
    #[inline]
    fn lock_upgradable(&self) {
        if !self.try_lock_upgradable_fast() {
            let result = self.lock_upgradable_slow(None);
            debug_assert!(result);
        }
        self.deadlock_acquire();
    }

    #[inline]
    fn try_lock_upgradable(&self) -> bool {
        let result = if self.try_lock_upgradable_fast() {
            true
        } else {
            self.try_lock_upgradable_slow()
        };
        if result {
            self.deadlock_acquire();
        }
        result
    }

    #[inline]
    unsafe fn unlock_upgradable(&self) {
        self.deadlock_release();
        let state = self.state.load(Ordering::Relaxed);
        #[allow(clippy::collapsible_if)]
        if state & PARKED_BIT == 0 {
            if self
                .state
                .compare_exchange_weak(
                    state,
                    state - (ONE_READER | UPGRADABLE_BIT),
                    Ordering::Release,
                    Ordering::Relaxed,
                )
                .is_ok()
            {
                return;
            }
        }
        self.unlock_upgradable_slow(false);
    }

    #[inline]
    unsafe fn upgrade(&self) {
        let state = self.state.fetch_sub(
            (ONE_READER | UPGRADABLE_BIT) - WRITER_BIT,
            Ordering::Acquire,
        );
        if state & READERS_MASK != ONE_READER {
            let result = self.upgrade_slow(None);
            debug_assert!(result);
        }
    }

    #[inline]
    unsafe fn try_upgrade(&self) -> bool {
        if self
            .state
            .compare_exchange_weak(
                ONE_READER | UPGRADABLE_BIT,
                WRITER_BIT,
                Ordering::Acquire,
                Ordering::Relaxed,
            )
            .is_ok()
        {
            true
        } else {
            self.try_upgrade_slow()
        }
    }
}

unsafe impl lock_api::RawRwLockUpgradeFair for RawRwLock {
    #[inline]
    unsafe fn unlock_upgradable_fair(&self) {
        self.deadlock_release();
        let state = self.state.load(Ordering::Relaxed);
        #[allow(clippy::collapsible_if)]
        if state & PARKED_BIT == 0 {
            if self
                .state
                .compare_exchange_weak(
                    state,
                    state - (ONE_READER | UPGRADABLE_BIT),
                    Ordering::Release,
                    Ordering::Relaxed,
                )
                .is_ok()
            {
                return;
            }
        }
        self.unlock_upgradable_slow(false);
    }

    #[inline]
    unsafe fn bump_upgradable(&self) {
        if self.state.load(Ordering::Relaxed) & PARKED_BIT != 0 {
            self.bump_upgradable_slow();
        }
    }
}

unsafe impl lock_api::RawRwLockUpgradeDowngrade for RawRwLock {
    #[inline]
    unsafe fn downgrade_upgradable(&self) {
        let state = self.state.fetch_sub(UPGRADABLE_BIT, Ordering::Relaxed);

        // Wake up parked upgradable threads if there are any
        if state & PARKED_BIT != 0 {
            self.downgrade_slow();
        }
    }

    #[inline]
    unsafe fn downgrade_to_upgradable(&self) {
        let state = self.state.fetch_add(
            (ONE_READER | UPGRADABLE_BIT) - WRITER_BIT,
            Ordering::Release,
        );

        // Wake up parked shared threads if there are any
        if state & PARKED_BIT != 0 {
            self.downgrade_to_upgradable_slow();
        }
    }
}

unsafe impl lock_api::RawRwLockUpgradeTimed for RawRwLock {
    #[inline]
    fn try_lock_upgradable_until(&self, timeout: Instant) -> bool {
        let result = if self.try_lock_upgradable_fast() {
            true
        } else {
            self.lock_upgradable_slow(Some(timeout))
        };
        if result {
            self.deadlock_acquire();
        }
        result
    }

    #[inline]
    fn try_lock_upgradable_for(&self, timeout: Duration) -> bool {
        let result = if self.try_lock_upgradable_fast() {
            true
        } else {
            self.lock_upgradable_slow(util::to_deadline(timeout))
        };
        if result {
            self.deadlock_acquire();
        }
        result
    }

    #[inline]
    unsafe fn try_upgrade_until(&self, timeout: Instant) -> bool {
        let state = self.state.fetch_sub(
            (ONE_READER | UPGRADABLE_BIT) - WRITER_BIT,
            Ordering::Relaxed,
        );
        if state & READERS_MASK == ONE_READER {
            true
        } else {
            self.upgrade_slow(Some(timeout))
        }
    }

    #[inline]
    unsafe fn try_upgrade_for(&self, timeout: Duration) -> bool {
        let state = self.state.fetch_sub(
            (ONE_READER | UPGRADABLE_BIT) - WRITER_BIT,
            Ordering::Relaxed,
        );
        if state & READERS_MASK == ONE_READER {
            true
        } else {
            self.upgrade_slow(util::to_deadline(timeout))
        }
    }
}

impl RawRwLock {
    #[inline(always)]
    fn try_lock_shared_fast(&self, recursive: bool) -> bool {
        let state = self.state.load(Ordering::Relaxed);

        // We can't allow grabbing a shared lock if there is a writer, even if
        // the writer is still waiting for the remaining readers to exit.
        if state & WRITER_BIT != 0 {
            // To allow recursive locks, we make an exception and allow readers
            // to skip ahead of a pending writer to avoid deadlocking, at the
            // cost of breaking the fairness guarantees.
            if !recursive || state & READERS_MASK == 0 {
                return false;
            }
        }

        // Use hardware lock elision to avoid cache conflicts when multiple
        // readers try to acquire the lock. We only do this if the lock is
        // completely empty since elision handles conflicts poorly.
        if have_elision() && state == 0 {
            self.state
                .elision_compare_exchange_acquire(0, ONE_READER)
                .is_ok()
        } else if let Some(new_state) = state.checked_add(ONE_READER) {
            self.state
                .compare_exchange_weak(state, new_state, Ordering::Acquire, Ordering::Relaxed)
                .is_ok()
        } else {
            false
        }
    }

    #[cold]
    fn try_lock_shared_slow(&self, recursive: bool) -> bool {
        let mut state = self.state.load(Ordering::Relaxed);
        loop {
            // This mirrors the condition in try_lock_shared_fast
            #[allow(clippy::collapsible_if)]
            if state & WRITER_BIT != 0 {
                if !recursive || state & READERS_MASK == 0 {
                    return false;
                }
            }
            if have_elision() && state == 0 {
                match self.state.elision_compare_exchange_acquire(0, ONE_READER) {
                    Ok(_) => return true,
                    Err(x) => state = x,
                }
            } else {
                match self.state.compare_exchange_weak(
                    state,
                    state
                        .checked_add(ONE_READER)
                        .expect("RwLock reader count overflow"),
                    Ordering::Acquire,
                    Ordering::Relaxed,
                ) {
                    Ok(_) => return true,
                    Err(x) => state = x,
                }
            }
        }
    }

    #[inline(always)]
    fn try_lock_upgradable_fast(&self) -> bool {
        let state = self.state.load(Ordering::Relaxed);

        // We can't grab an upgradable lock if there is already a writer or
        // upgradable reader.
        if state & (WRITER_BIT | UPGRADABLE_BIT) != 0 {
            return false;
        }

        if let Some(new_state) = state.checked_add(ONE_READER | UPGRADABLE_BIT) {
            self.state
                .compare_exchange_weak(state, new_state, Ordering::Acquire, Ordering::Relaxed)
                .is_ok()
        } else {
            false
        }
    }

    #[cold]
    fn try_lock_upgradable_slow(&self) -> bool {
        let mut state = self.state.load(Ordering::Relaxed);
        loop {
            // This mirrors the condition in try_lock_upgradable_fast
            if state & (WRITER_BIT | UPGRADABLE_BIT) != 0 {
                return false;
            }

            match self.state.compare_exchange_weak(
                state,
                state
                    .checked_add(ONE_READER | UPGRADABLE_BIT)
                    .expect("RwLock reader count overflow"),
                Ordering::Acquire,
                Ordering::Relaxed,
            ) {
                Ok(_) => return true,
                Err(x) => state = x,
            }
        }
    }

    #[cold]
    fn lock_exclusive_slow(&self, timeout: Option<Instant>) -> bool {
        let try_lock = |state: &mut usize| {
            loop {
                if *state & (WRITER_BIT | UPGRADABLE_BIT) != 0 {
                    return false;
                }

                // Grab WRITER_BIT if it isn't set, even if there are parked threads.
                match self.state.compare_exchange_weak(
                    *state,
                    *state | WRITER_BIT,
                    Ordering::Acquire,
                    Ordering::Relaxed,
                ) {
                    Ok(_) => return true,
                    Err(x) => *state = x,
                }
            }
        };

        // Step 1: grab exclusive ownership of WRITER_BIT
        let timed_out = !self.lock_common(
            timeout,
            TOKEN_EXCLUSIVE,
            try_lock,
            WRITER_BIT | UPGRADABLE_BIT,
        );
        if timed_out {
            return false;
        }

        // Step 2: wait for all remaining readers to exit the lock.
        self.wait_for_readers(timeout, 0)
    }

    #[cold]
    fn unlock_exclusive_slow(&self, force_fair: bool) {
        // There are threads to unpark. Try to unpark as many as we can.
        let callback = |mut new_state, result: UnparkResult| {
            // If we are using a fair unlock then we should keep the
            // rwlock locked and hand it off to the unparked threads.
            if result.unparked_threads != 0 && (force_fair || result.be_fair) {
                if result.have_more_threads {
                    new_state |= PARKED_BIT;
                }
                self.state.store(new_state, Ordering::Release);
                TOKEN_HANDOFF
            } else {
                // Clear the parked bit if there are no more parked threads.
                if result.have_more_threads {
                    self.state.store(PARKED_BIT, Ordering::Release);
                } else {
                    self.state.store(0, Ordering::Release);
                }
                TOKEN_NORMAL
            }
        };
        // SAFETY: `callback` does not panic or call into any function of `parking_lot`.
        unsafe {
            self.wake_parked_threads(0, callback);
        }
    }

    #[cold]
    fn lock_shared_slow(&self, recursive: bool, timeout: Option<Instant>) -> bool {
        let try_lock = |state: &mut usize| {
            let mut spinwait_shared = SpinWait::new();
            loop {
                // Use hardware lock elision to avoid cache conflicts when multiple
                // readers try to acquire the lock. We only do this if the lock is
                // completely empty since elision handles conflicts poorly.
                if have_elision() && *state == 0 {
                    match self.state.elision_compare_exchange_acquire(0, ONE_READER) {
                        Ok(_) => return true,
                        Err(x) => *state = x,
                    }
                }

                // This is the same condition as try_lock_shared_fast
                #[allow(clippy::collapsible_if)]
                if *state & WRITER_BIT != 0 {
                    if !recursive || *state & READERS_MASK == 0 {
                        return false;
                    }
                }

                if self
                    .state
                    .compare_exchange_weak(
                        *state,
                        state
                            .checked_add(ONE_READER)
                            .expect("RwLock reader count overflow"),
                        Ordering::Acquire,
                        Ordering::Relaxed,
                    )
                    .is_ok()
                {
                    return true;
                }

                // If there is high contention on the reader count then we want
                // to leave some time between attempts to acquire the lock to
                // let other threads make progress.
                spinwait_shared.spin_no_yield();
                *state = self.state.load(Ordering::Relaxed);
            }
        };
        self.lock_common(timeout, TOKEN_SHARED, try_lock, WRITER_BIT)
    }

    #[cold]
    fn unlock_shared_slow(&self) {
        // At this point WRITER_PARKED_BIT is set and READER_MASK is empty. We
        // just need to wake up a potentially sleeping pending writer.
        // Using the 2nd key at addr + 1
        let addr = self as *const _ as usize + 1;
        let callback = |_result: UnparkResult| {
            // Clear the WRITER_PARKED_BIT here since there can only be one
            // parked writer thread.
            self.state.fetch_and(!WRITER_PARKED_BIT, Ordering::Relaxed);
            TOKEN_NORMAL
        };
        // SAFETY:
        //   * `addr` is an address we control.
        //   * `callback` does not panic or call into any function of `parking_lot`.
        unsafe {
            parking_lot_core::unpark_one(addr, callback);
        }
    }

    #[cold]
    fn lock_upgradable_slow(&self, timeout: Option<Instant>) -> bool {
        let try_lock = |state: &mut usize| {
            let mut spinwait_shared = SpinWait::new();
            loop {
                if *state & (WRITER_BIT | UPGRADABLE_BIT) != 0 {
                    return false;
                }

                if self
                    .state
                    .compare_exchange_weak(
                        *state,
                        state
                            .checked_add(ONE_READER | UPGRADABLE_BIT)
                            .expect("RwLock reader count overflow"),
                        Ordering::Acquire,
                        Ordering::Relaxed,
                    )
                    .is_ok()
                {
                    return true;
                }

                // If there is high contention on the reader count then we want
                // to leave some time between attempts to acquire the lock to
                // let other threads make progress.
                spinwait_shared.spin_no_yield();
                *state = self.state.load(Ordering::Relaxed);
            }
        };
        self.lock_common(
            timeout,
            TOKEN_UPGRADABLE,
            try_lock,
            WRITER_BIT | UPGRADABLE_BIT,
        )
    }

    #[cold]
    fn unlock_upgradable_slow(&self, force_fair: bool) {
        // Just release the lock if there are no parked threads.
        let mut state = self.state.load(Ordering::Relaxed);
        while state & PARKED_BIT == 0 {
            match self.state.compare_exchange_weak(
                state,
                state - (ONE_READER | UPGRADABLE_BIT),
                Ordering::Release,
                Ordering::Relaxed,
            ) {
                Ok(_) => return,
                Err(x) => state = x,
            }
        }

        // There are threads to unpark. Try to unpark as many as we can.
        let callback = |new_state, result: UnparkResult| {
            // If we are using a fair unlock then we should keep the
            // rwlock locked and hand it off to the unparked threads.
            let mut state = self.state.load(Ordering::Relaxed);
            if force_fair || result.be_fair {
                // Fall back to normal unpark on overflow. Panicking is
                // not allowed in parking_lot callbacks.
                while let Some(mut new_state) =
                    (state - (ONE_READER | UPGRADABLE_BIT)).checked_add(new_state)
                {
                    if result.have_more_threads {
                        new_state |= PARKED_BIT;
                    } else {
                        new_state &= !PARKED_BIT;
                    }
                    match self.state.compare_exchange_weak(
                        state,
                        new_state,
                        Ordering::Relaxed,
                        Ordering::Relaxed,
                    ) {
                        Ok(_) => return TOKEN_HANDOFF,
                        Err(x) => state = x,
                    }
                }
            }

            // Otherwise just release the upgradable lock and update PARKED_BIT.
            loop {
                let mut new_state = state - (ONE_READER | UPGRADABLE_BIT);
                if result.have_more_threads {
                    new_state |= PARKED_BIT;
                } else {
                    new_state &= !PARKED_BIT;
                }
                match self.state.compare_exchange_weak(
                    state,
                    new_state,
                    Ordering::Relaxed,
                    Ordering::Relaxed,
                ) {
                    Ok(_) => return TOKEN_NORMAL,
                    Err(x) => state = x,
                }
            }
        };
        // SAFETY: `callback` does not panic or call into any function of `parking_lot`.
        unsafe {
            self.wake_parked_threads(0, callback);
        }
    }

    #[cold]
    fn try_upgrade_slow(&self) -> bool {
        let mut state = self.state.load(Ordering::Relaxed);
        loop {
            if state & READERS_MASK != ONE_READER {
                return false;
            }
            match self.state.compare_exchange_weak(
                state,
                state - (ONE_READER | UPGRADABLE_BIT) + WRITER_BIT,
                Ordering::Relaxed,
                Ordering::Relaxed,
            ) {
                Ok(_) => return true,
                Err(x) => state = x,
            }
        }
    }

    #[cold]
    fn upgrade_slow(&self, timeout: Option<Instant>) -> bool {
        self.deadlock_release();
        let result = self.wait_for_readers(timeout, ONE_READER | UPGRADABLE_BIT);
        self.deadlock_acquire();
        result
    }

    #[cold]
    fn downgrade_slow(&self) {
        // We only reach this point if PARKED_BIT is set.
        let callback = |_, result: UnparkResult| {
            // Clear the parked bit if there no more parked threads
            if !result.have_more_threads {
                self.state.fetch_and(!PARKED_BIT, Ordering::Relaxed);
            }
            TOKEN_NORMAL
        };
        // SAFETY: `callback` does not panic or call into any function of `parking_lot`.
        unsafe {
            self.wake_parked_threads(ONE_READER, callback);
        }
    }

    #[cold]
    fn downgrade_to_upgradable_slow(&self) {
        // We only reach this point if PARKED_BIT is set.
        let callback = |_, result: UnparkResult| {
            // Clear the parked bit if there no more parked threads
            if !result.have_more_threads {
                self.state.fetch_and(!PARKED_BIT, Ordering::Relaxed);
            }
            TOKEN_NORMAL
        };
        // SAFETY: `callback` does not panic or call into any function of `parking_lot`.
        unsafe {
            self.wake_parked_threads(ONE_READER | UPGRADABLE_BIT, callback);
        }
    }

    #[cold]
    unsafe fn bump_shared_slow(&self) {
        self.unlock_shared();
        self.lock_shared();
    }

    #[cold]
    fn bump_exclusive_slow(&self) {
        self.deadlock_release();
        self.unlock_exclusive_slow(true);
        self.lock_exclusive();
    }

    #[cold]
    fn bump_upgradable_slow(&self) {
        self.deadlock_release();
        self.unlock_upgradable_slow(true);
        self.lock_upgradable();
    }

    /// Common code for waking up parked threads after releasing `WRITER_BIT` or
    /// `UPGRADABLE_BIT`.
    ///
    /// # Safety
    ///
    /// `callback` must uphold the requirements of the `callback` parameter to
    /// `parking_lot_core::unpark_filter`. Meaning no panics or calls into any function in
    /// `parking_lot`.
    #[inline]
    unsafe fn wake_parked_threads(
        &self,
        new_state: usize,
        callback: impl FnOnce(usize, UnparkResult) -> UnparkToken,
    ) {
        // We must wake up at least one upgrader or writer if there is one,
        // otherwise they may end up parked indefinitely since unlock_shared
        // does not call wake_parked_threads.
        let new_state = Cell::new(new_state);
        let addr = self as *const _ as usize;
        let filter = |ParkToken(token)| {
            let s = new_state.get();

            // If we are waking up a writer, don't wake anything else.
            if s & WRITER_BIT != 0 {
                return FilterOp::Stop;
            }

            // Otherwise wake *all* readers and one upgrader/writer.
            if token & (UPGRADABLE_BIT | WRITER_BIT) != 0 && s & UPGRADABLE_BIT != 0 {
                // Skip writers and upgradable readers if we already have
                // a writer/upgradable reader.
                FilterOp::Skip
            } else {
                new_state.set(s + token);
                FilterOp::Unpark
            }
        };
        let callback = |result| callback(new_state.get(), result);
        // SAFETY:
        // * `addr` is an address we control.
        // * `filter` does not panic or call into any function of `parking_lot`.
        // * `callback` safety responsibility is on caller
        parking_lot_core::unpark_filter(addr, filter, callback);
    }

    // Common code for waiting for readers to exit the lock after acquiring
    // WRITER_BIT.
    #[inline]
    fn wait_for_readers(&self, timeout: Option<Instant>, prev_value: usize) -> bool {
        // At this point WRITER_BIT is already set, we just need to wait for the
        // remaining readers to exit the lock.
        let mut spinwait = SpinWait::new();
        let mut state = self.state.load(Ordering::Acquire);
        while state & READERS_MASK != 0 {
            // Spin a few times to wait for readers to exit
            if spinwait.spin() {
                state = self.state.load(Ordering::Acquire);
                continue;
            }

            // Set the parked bit
            if state & WRITER_PARKED_BIT == 0 {
                if let Err(x) = self.state.compare_exchange_weak(
                    state,
                    state | WRITER_PARKED_BIT,
                    Ordering::Acquire,
                    Ordering::Acquire,
                ) {
                    state = x;
                    continue;
                }
            }

            // Park our thread until we are woken up by an unlock
            // Using the 2nd key at addr + 1
            let addr = self as *const _ as usize + 1;
            let validate = || {
                let state = self.state.load(Ordering::Relaxed);
                state & READERS_MASK != 0 && state & WRITER_PARKED_BIT != 0
            };
            let before_sleep = || {};
            let timed_out = |_, was_last_thread: bool| {
                // Clear the parked bit while holding the queue lock. There can
                // only be one thread parked (this one).
                debug_assert!(was_last_thread);
                self.state.fetch_and(!WRITER_PARKED_BIT, Ordering::Relaxed);
            };
            // SAFETY:
            //   * `addr` is an address we control.
            //   * `validate`/`timed_out` does not panic or call into any function of `parking_lot`.
            //   * `before_sleep` does not call `park`, nor does it panic.
            let park_result = unsafe {
                parking_lot_core::park(
                    addr,
                    validate,
                    before_sleep,
                    timed_out,
                    TOKEN_EXCLUSIVE,
                    timeout,
                )
            };
            match park_result {
                // We still need to re-check the state if we are unparked
                // since a previous writer timing-out could have allowed
                // another reader to sneak in before we parked.
                ParkResult::Unparked(_) | ParkResult::Invalid => {
                    state = self.state.load(Ordering::Acquire);
                    continue;
                }

                // Timeout expired
                ParkResult::TimedOut => {
                    // We need to release WRITER_BIT and revert back to
                    // our previous value. We also wake up any threads that
                    // might be waiting on WRITER_BIT.
                    let state = self
                        .state
                        .fetch_add(prev_value.wrapping_sub(WRITER_BIT), Ordering::Relaxed);
                    if state & PARKED_BIT != 0 {
                        let callback = |_, result: UnparkResult| {
                            // Clear the parked bit if there no more parked threads
                            if !result.have_more_threads {
                                self.state.fetch_and(!PARKED_BIT, Ordering::Relaxed);
                            }
                            TOKEN_NORMAL
                        };
                        // SAFETY: `callback` does not panic or call any function of `parking_lot`.
                        unsafe {
                            self.wake_parked_threads(prev_value, callback);
                        }
                    }
                    return false;
                }
            }
        }
        true
    }

    /// Common code for acquiring a lock
    #[inline]
    fn lock_common(
        &self,
        timeout: Option<Instant>,
        token: ParkToken,
        mut try_lock: impl FnMut(&mut usize) -> bool,
        validate_flags: usize,
    ) -> bool {
        let mut spinwait = SpinWait::new();
        let mut state = self.state.load(Ordering::Relaxed);
        loop {
            // Attempt to grab the lock
            if try_lock(&mut state) {
                return true;
            }

            // If there are no parked threads, try spinning a few times.
            if state & (PARKED_BIT | WRITER_PARKED_BIT) == 0 && spinwait.spin() {
                state = self.state.load(Ordering::Relaxed);
                continue;
            }

            // Set the parked bit
            if state & PARKED_BIT == 0 {
                if let Err(x) = self.state.compare_exchange_weak(
                    state,
                    state | PARKED_BIT,
                    Ordering::Relaxed,
                    Ordering::Relaxed,
                ) {
                    state = x;
                    continue;
                }
            }

            // Park our thread until we are woken up by an unlock
            let addr = self as *const _ as usize;
            let validate = || {
                let state = self.state.load(Ordering::Relaxed);
                state & PARKED_BIT != 0 && (state & validate_flags != 0)
            };
            let before_sleep = || {};
            let timed_out = |_, was_last_thread| {
                // Clear the parked bit if we were the last parked thread
                if was_last_thread {
                    self.state.fetch_and(!PARKED_BIT, Ordering::Relaxed);
                }
            };

            // SAFETY:
            // * `addr` is an address we control.
            // * `validate`/`timed_out` does not panic or call into any function of `parking_lot`.
            // * `before_sleep` does not call `park`, nor does it panic.
            let park_result = unsafe {
                parking_lot_core::park(addr, validate, before_sleep, timed_out, token, timeout)
            };
            match park_result {
                // The thread that unparked us passed the lock on to us
                // directly without unlocking it.
                ParkResult::Unparked(TOKEN_HANDOFF) => return true,

                // We were unparked normally, try acquiring the lock again
                ParkResult::Unparked(_) => (),

                // The validation function failed, try locking again
                ParkResult::Invalid => (),

                // Timeout expired
                ParkResult::TimedOut => return false,
            }

            // Loop back and try locking again
            spinwait.reset();
            state = self.state.load(Ordering::Relaxed);
        }
    }

    #[inline]
    fn deadlock_acquire(&self) {
        unsafe { deadlock::acquire_resource(self as *const _ as usize) };
        unsafe { deadlock::acquire_resource(self as *const _ as usize + 1) };
    }

    #[inline]
    fn deadlock_release(&self) {
        unsafe { deadlock::release_resource(self as *const _ as usize) };
        unsafe { deadlock::release_resource(self as *const _ as usize + 1) };
    }
}
