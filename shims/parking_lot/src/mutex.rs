// Copyright 2016 Amanieu d'Antras
//
// Licensed under the Apache License, Version 2.0, <LICENSE-APACHE or
// http://apache.org/licenses/LICENSE-2.0> or the MIT license <LICENSE-MIT or
// http://opensource.org/licenses/MIT>, at your option. This file may not be
// copied, modified, or distributed except according to those terms.

use crate::raw_mutex::RawMutex;

/// A mutual exclusion primitive useful for protecting shared data
///
/// This mutex will block threads waiting for the lock to become available. The
/// mutex can be statically initialized or created by the `new`
/// constructor. Each mutex has a type parameter which represents the data that
/// it is protecting. The data can only be accessed through the RAII guards
/// returned from `lock` and `try_lock`, which guarantees that the data is only
/// ever accessed when the mutex is locked.
///
/// # Fairness
///
/// A typical unfair lock can often end up in a situation where a single thread
/// quickly acquires and releases the same mutex in succession, which can starve
/// other threads waiting to acquire the mutex. While this improves throughput
/// because it doesn't force a context switch when a thread tries to re-acquire
/// a mutex it has just released, this can starve other threads.
///
/// This mutex uses [eventual fairness](https://trac.webkit.org/changeset/203350)
/// to ensure that the lock will be fair on average without sacrificing
/// throughput. This is done by forcing a fair unlock on average every 0.5ms,
/// which will force the lock to go to the next thread waiting for the mutex.
///
/// Additionally, any critical section longer than 1ms will always use a fair
/// unlock, which has a negligible impact on throughput considering the length
/// of the critical section.
///
/// You can also force a fair unlock by calling `MutexGuard::unlock_fair` when
/// unlocking a mutex instead of simply dropping the `MutexGuard`.
///
/// # Differences from the standard library `Mutex`
///
/// - No poisoning, the lock is released normally on panic.
/// - Only requires 1 byte of space, whereas the standard library boxes the
///   `Mutex` due to platform limitations.
/// - Can be statically constructed.
/// - Does not require any drop glue when dropped.
/// - Inline fast path for the uncontended case.
/// - Efficient handling of micro-contention using adaptive spinning.
/// - Allows raw locking & unlocking without a guard.
/// - Supports eventual fairness so that the mutex is fair on average.
/// - Optionally allows making the mutex fair by calling `MutexGuard::unlock_fair`.
///
/// # Examples
///
/// ```
/// use parking_lot::Mutex;
/// use std::sync::{Arc, mpsc::channel};
/// use std::thread;
///
/// const N: usize = 10;
///
/// // Spawn a few threads to increment a shared variable (non-atomically), and
/// // let the main thread know once all increments are done.
/// //
/// // Here we're using an Arc to share memory among threads, and the data inside
/// // the Arc is protected with a mutex.
/// let data = Arc::new(Mutex::new(0));
///
/// let (tx, rx) = channel();
/// for _ in 0..10 {
///     let (data, tx) = (Arc::clone(&data), tx.clone());
///     thread::spawn(move || {
///         // The shared state can only be accessed once the lock is held.
///         // Our non-atomic increment is safe because we're the only thread
///         // which can access the shared state when the lock is held.
///         let mut data = data.lock();
///         *data += 1;
///         if *data == N {
///             tx.send(()).unwrap();
///         }
///         // the lock is unlocked here when `data` goes out of scope.
///     });
/// }
///
/// rx.recv().unwrap();
/// ```
pub type Mutex<T> = lock_api::Mutex<RawMutex, T>;

/// Creates a new mutex in an unlocked state ready for use.
///
/// This allows creating a mutex in a constant context on stable Rust.
pub const fn const_mutex<T>(val: T) -> Mutex<T> {
    Mutex::const_new(<RawMutex as lock_api::RawMutex>::INIT, val)
}

/// An RAII implementation of a "scoped lock" of a mutex. When this structure is
/// dropped (falls out of scope), the lock will be unlocked.
///
/// The data protected by the mutex can be accessed through this guard via its
/// `Deref` and `DerefMut` implementations.
pub type MutexGuard<'a, T> = lock_api::MutexGuard<'a, RawMutex, T>;

/// An RAII mutex guard returned by `MutexGuard::map`, which can point to a
/// subfield of the protected data.
///
/// The main difference between `MappedMutexGuard` and `MutexGuard` is that the
/// former doesn't support temporarily unlocking and re-locking, since that
/// could introduce soundness issues if the locked object is modified by another
/// thread.
pub type MappedMutexGuard<'a, T> = lock_api::MappedMutexGuard<'a, RawMutex, T>;

#[cfg(test)]
mod tests {
    use crate::{Condvar, MappedMutexGuard, Mutex, MutexGuard};
    use std::collections::HashMap;
    use std::ops::Deref;
    use std::sync::atomic::{AtomicUsize, Ordering};
    use std::sync::mpsc::channel;
    use std::sync::Arc;
    use std::thread;

    #[cfg(feature = "serde")]
    use bincode::{deserialize, serialize};

    struct Packet<T>(Arc<(Mutex<T>, Condvar)>);

    #[derive(Eq, PartialEq, Debug)]
    struct NonCopy(i32);

    unsafe impl<T: Send> Send for Packet<T> {}
    unsafe impl<T> Sync for Packet<T> {}

    #[test]
    fn smoke() {
        let m = Mutex::new(());
        drop(m.lock());
        drop(m.lock());
    }

    #[test]
    fn lots_and_lots() {
        const J: u32 = 1000;
        const K: u32 = 3;

        let m = Arc::new(Mutex::new(0));

        fn inc(m: &Mutex<u32>) {
            for _ in 0..J {
                *m.lock() += 1;
            }
        }

        let (tx, rx) = channel();
        for _ in 0..K {
            let tx2 = tx.clone();
            let m2 = m.clone();
            thread::spawn(move || {
                inc(&m2);
                tx2.send(()).unwrap();
            });
            let tx2 = tx.clone();
            let m2 = m.clone();
            thread::spawn(move || {
                inc(&m2);
                tx2.send(()).unwrap();
            });
        }

        drop(tx);
        for _ in 0..2 * K {
            rx.recv().unwrap();
        }
        assert_eq!(*m.lock(), J * K * 2);
    }

    #[test]
    fn try_lock() {
        let m = Mutex::new(());
        *m.try_lock().unwrap() = ();
    }

    #[test]
    fn test_into_inner() {
        let m = Mutex::new(NonCopy(10));
        assert_eq!(m.into_inner(), NonCopy(10));
    }

    #[test]
    fn test_into_inner_drop() {
        struct Foo(Arc<AtomicUsize>);
        impl Drop for Foo {
            fn drop(&mut self) {
                self.0.fetch_add(1, Ordering::SeqCst);
            }
        }
        let num_drops = Arc::new(AtomicUsize::new(0));
        let m = Mutex::new(Foo(num_drops.clone()));
        assert_eq!(num_drops.load(Ordering::SeqCst), 0);
        {
            let _inner = m.into_inner();
            assert_eq!(num_drops.load(Ordering::SeqCst), 0);
        }
        assert_eq!(num_drops.load(Ordering::SeqCst), 1);
    }

    #[test]
    fn test_get_mut() {
        let mut m = Mutex::new(NonCopy(10));
        *m.get_mut() = NonCopy(20);
        assert_eq!(m.into_inner(), NonCopy(20));
    }

    #[test]
    fn test_mutex_arc_condvar() {
        let packet = Packet(Arc::new((Mutex::new(false), Condvar::new())));
        let packet2 = Packet(packet.0.clone());
        let (tx, rx) = channel();
        let _t = thread::spawn(move || {
            // wait until parent gets in
            rx.recv().unwrap();
            let (lock, cvar) = &*packet2.0;
            let mut lock = lock.lock();
            *lock = true;
            cvar.notify_one();
        });

        let (lock, cvar) = &*packet.0;
        let mut lock = lock.lock();
        tx.send(()).unwrap();
        assert!(!*lock);
        while !*lock {
            cvar.wait(&mut lock);
        }
    }

    #[test]
    fn test_mutex_arc_nested() {
        // Tests nested mutexes and access
        // to underlying data.
        let arc = Arc::new(Mutex::new(1));
        let arc2 = Arc::new(Mutex::new(arc));
        let (tx, rx) = channel();
        let _t = thread::spawn(move || {
            let lock = arc2.lock();
            let lock2 = lock.lock();
            assert_eq!(*lock2, 1);
            tx.send(()).unwrap();
        });
        rx.recv().unwrap();
    }

    #[test]
    fn test_mutex_arc_access_in_unwind() {
        let arc = Arc::new(Mutex::new(1));
        let arc2 = arc.clone();
        let _ = thread::spawn(move || {
            struct Unwinder {
                i: Arc<Mutex<i32>>,
            }
            impl Drop for Unwinder {
                fn drop(&mut self) {
                    *self.i.lock() += 1;
                }
            }
            let _u = Unwinder { i: arc2 };
            panic!();
        })
        .join();
        let lock = arc.lock();
        assert_eq!(*lock, 2);
    }

    #[test]
    fn test_mutex_unsized() {
        let mutex: &Mutex<[i32]> = &Mutex::new([1, 2, 3]);
        {
            let b = &mut *mutex.lock();
            b[0] = 4;
            b[2] = 5;
        }
        let comp: &[i32] = &[4, 2, 5];
        assert_eq!(&*mutex.lock(), comp);
    }

    #[test]
    fn test_mutexguard_sync() {
        fn sync<T: Sync>(_: T) {}

        let mutex = Mutex::new(());
        sync(mutex.lock());
    }

    #[test]
    fn test_mutex_debug() {
        let mutex = Mutex::new(vec![0u8, 10]);

        assert_eq!(format!("{:?}", mutex), "Mutex { data: [0, 10] }");
        let _lock = mutex.lock();
        assert_eq!(format!("{:?}", mutex), "Mutex { data: <locked> }");
    }

    #[cfg(feature = "serde")]
    #[test]
    fn test_serde() {
        let contents: Vec<u8> = vec![0, 1, 2];
        let mutex = Mutex::new(contents.clone());

        let serialized = serialize(&mutex).unwrap();
        let deserialized: Mutex<Vec<u8>> = deserialize(&serialized).unwrap();

        assert_eq!(*(mutex.lock()), *(deserialized.lock()));
        assert_eq!(contents, *(deserialized.lock()));
    }

    #[test]
    fn test_map_or_err_not_mapped() {
        let mut map = HashMap::new();
        map.insert("hello".to_string(), "world".to_string());

        let mutex = Mutex::new(map);
        let guard = mutex.lock();
        let guard = match MutexGuard::try_map_or_err(guard, |the_map| {
            the_map.get_mut("hello2").ok_or(12345i32)
        }) {
            Ok(_) => unreachable!(),
            Err((guard, data)) => {
                assert_eq!(data, 12345i32);
                assert_eq!(guard.get("hello"), Some(&"world".to_string()));
                guard
            }
        };

        // Lets try again
        let mapped_guard = match MutexGuard::try_map_or_err(guard, |the_map| {
            the_map.get_mut("hello").ok_or("unreachable")
        }) {
            Ok(mapped_guard) => mapped_guard,
            Err((_, _)) => unreachable!(),
        };

        assert_eq!(mapped_guard.as_str(), "world");

        match MappedMutexGuard::try_map_or_err(mapped_guard, |the_string| {
            if the_string != "world" {
                //unreachable
                Ok(the_string.as_mut_str())
            } else {
                Err(45678i32)
            }
        }) {
            Ok(_) => unreachable!(),
            Err((guard, err)) => {
                assert_eq!(guard.as_str(), "world");
                assert_eq!(err, 45678i32);
            }
        };
    }

    #[test]
    fn test_map_or_err_mapped() {
        let mut map = HashMap::new();
        map.insert("hello".to_string(), "world".to_string());

        let mutex = Mutex::new(map);
        let guard = mutex.lock();
        let mapped_guard = match MutexGuard::try_map_or_err(guard, |the_map| {
            the_map.get_mut("hello").ok_or("unreachable")
        }) {
            Ok(mapped_guard) => mapped_guard,
            Err((_, _)) => unreachable!(),
        };

        assert_eq!(mapped_guard.as_str(), "world");

        match MappedMutexGuard::try_map_or_err(mapped_guard, |the_string| {
            if the_string == "world" {
                Ok(the_string.as_mut_str())
            } else {
                Err("unreachable")
            }
        }) {
            Ok(mapped_guard) => assert_eq!(mapped_guard.deref(), "world"),
            Err((_, _)) => unreachable!(),
        };
    }
}
