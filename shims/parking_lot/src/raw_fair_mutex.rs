// Copyright 2016 Amanieu d'Antras
//
// Licensed under the Apache License, Version 2.0, <LICENSE-APACHE or
// http://apache.org/licenses/LICENSE-2.0> or the MIT license <LICENSE-MIT or
// http://opensource.org/licenses/MIT>, at your option. This file may not be
// copied, modified, or distributed except according to those terms.

use crate::raw_mutex::RawMutex;
use lock_api::RawMutexFair;

/// Raw fair mutex type backed by the parking lot.
pub struct RawFairMutex(RawMutex);

unsafe impl lock_api::RawMutex for RawFairMutex {
    const INIT: Self = RawFairMutex(<RawMutex as lock_api::RawMutex>::INIT);

    type GuardMarker = <RawMutex as lock_api::RawMutex>::GuardMarker;

    #[inline]
    fn lock(&self) {
        self.0.lock()
    }

    #[inline]
    fn try_lock(&self) -> bool {
        self.0.try_lock()
    }

    #[inline]
    unsafe fn unlock(&self) {
        self.unlock_fair()
    }

    #[inline]
    fn is_locked(&self) -> bool {
        self.0.is_locked()
    }
}

unsafe impl lock_api::RawMutexFair for RawFairMutex {
    #[inline]
    unsafe fn unlock_fair(&self) {
        self.0.unlock_fair()
    }

    #[inline]
    unsafe fn bump(&self) {
        self.0.bump()
    }
}

unsafe impl lock_api::RawMutexTimed for RawFairMutex {
    type Duration = <RawMutex as lock_api::RawMutexTimed>::Duration;
    type Instant = <RawMutex as lock_api::RawMutexTimed>::Instant;

    #[inline]
    fn try_lock_until(&self, timeout: Self::Instant) -> bool {
        self.0.try_lock_until(timeout)
    }

    #[inline]
    fn try_lock_for(&self, timeout: Self::Duration) -> bool {
        self.0.try_lock_for(timeout)
    }
}
