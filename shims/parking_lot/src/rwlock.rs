// Copyright 2016 Amanieu d'Antras
//
// Licensed under the Apache License, Version 2.0, <LICENSE-APACHE or
// http://apache.org/licenses/LICENSE-2.0> or the MIT license <LICENSE-MIT or
// http://opensource.org/licenses/MIT>, at your option. This file may not be
// copied, modified, or distributed except according to those terms.

use crate::raw_rwlock::RawRwLock;

/// A reader-writer lock
///
/// This type of lock allows a number of readers or at most one writer at any
/// point in time. The write portion of this lock typically allows modification
/// of the underlying data (exclusive access) and the read portion of this lock
/// typically allows for read-only access (shared access).
///
/// This lock uses a task-fair locking policy which avoids both reader and
/// writer starvation. This means that readers trying to acquire the lock will
/// block even if the lock is unlocked when there are writers waiting to acquire
/// the lock. Because of this, attempts to recursively acquire a read lock
/// within a single thread may result in a deadlock.
///
/// The type parameter `T` represents the data that this lock protects. It is
/// required that `T` satisfies `Send` to be shared across threads and `Sync` to
/// allow concurrent access through readers. The RAII guards returned from the
/// locking methods implement `Deref` (and `DerefMut` for the `write` methods)
/// to allow access to the contained of the lock.
///
/// # Fairness
///
/// A typical unfair lock can often end up in a situation where a single thread
/// quickly acquires and releases the same lock in succession, which can starve
/// other threads waiting to acquire the rwlock. While this improves throughput
/// because it doesn't force a context switch when a thread tries to re-acquire
/// a rwlock it has just released, this can starve other threads.
///
/// This rwlock uses [eventual fairness](https://trac.webkit.org/changeset/203350)
/// to ensure that the lock will be fair on average without sacrificing
/// throughput. This is done by forcing a fair unlock on average every 0.5ms,
/// which will force the lock to go to the next thread waiting for the rwlock.
///
/// Additionally, any critical section longer than 1ms will always use a fair
/// unlock, which has a negligible impact on throughput considering the length
/// of the critical section.
///
/// You can also force a fair unlock by calling `RwLockReadGuard::unlock_fair`
/// or `RwLockWriteGuard::unlock_fair` when unlocking a mutex instead of simply
/// dropping the guard.
///
/// # Differences from the standard library `RwLock`
///
/// - Supports atomically downgrading a write lock into a read lock.
/// - Task-fair locking policy instead of an unspecified platform default.
/// - No poisoning, the lock is released normally on panic.
/// - Only requires 1 word of space, whereas the standard library boxes the
///   `RwLock` due to platform limitations.
/// - Can be statically constructed.
/// - Does not require any drop glue when dropped.
/// - Inline fast path for the uncontended case.
/// - Efficient handling of micro-contention using adaptive spinning.
/// - Allows raw locking & unlocking without a guard.
/// - Supports eventual fairness so that the rwlock is fair on average.
/// - Optionally allows making the rwlock fair by calling
///   `RwLockReadGuard::unlock_fair` and `RwLockWriteGuard::unlock_fair`.
///
/// # Examples
///
/// ```
/// use parking_lot::RwLock;
///
/// let lock = RwLock::new(5);
///
/// // many reader locks can be held at once
/// {
///     let r1 = lock.read();
///     let r2 = lock.read();
///     assert_eq!(*r1, 5);
///     assert_eq!(*r2, 5);
/// } // read locks are dropped at this point
///
/// // only one write lock may be held, however
/// {
///     let mut w = lock.write();
///     *w += 1;
///     assert_eq!(*w, 6);
/// } // write lock is dropped here
/// ```
pub type RwLock<T> = lock_api::RwLock<RawRwLock, T>;

/// Creates a new instance of an `RwLock<T>` which is unlocked.
///
/// This allows creating a `RwLock<T>` in a constant context on stable Rust.
pub const fn const_rwlock<T>(val: T) -> RwLock<T> {
    RwLock::const_new(<RawRwLock as lock_api::RawRwLock>::INIT, val)
}

/// RAII structure used to release the shared read access of a lock when
/// dropped.
pub type RwLockReadGuard<'a, T> = lock_api::RwLockReadGuard<'a, RawRwLock, T>;

/// RAII structure used to release the exclusive write access of a lock when
/// dropped.
pub type RwLockWriteGuard<'a, T> = lock_api::RwLockWriteGuard<'a, RawRwLock, T>;

/// An RAII read lock guard returned by `RwLockReadGuard::map`, which can point to a
/// subfield of the protected data.
///
/// The main difference between `MappedRwLockReadGuard` and `RwLockReadGuard` is that the
/// former doesn't support temporarily unlocking and re-locking, since that
/// could introduce soundness issues if the locked object is modified by another
/// thread.
pub type MappedRwLockReadGuard<'a, T> = lock_api::MappedRwLockReadGuard<'a, RawRwLock, T>;

/// An RAII write lock guard returned by `RwLockWriteGuard::map`, which can point to a
/// subfield of the protected data.
///
/// The main difference between `MappedRwLockWriteGuard` and `RwLockWriteGuard` is that the
/// former doesn't support temporarily unlocking and re-locking, since that
/// could introduce soundness issues if the locked object is modified by another
/// thread.
pub type MappedRwLockWriteGuard<'a, T> = lock_api::MappedRwLockWriteGuard<'a, RawRwLock, T>;

/// RAII structure used to release the upgradable read access of a lock when
/// dropped.
pub type RwLockUpgradableReadGuard<'a, T> = lock_api::RwLockUpgradableReadGuard<'a, RawRwLock, T>;

#[cfg(test)]
mod tests {
    use crate::{RwLock, RwLockUpgradableReadGuard, RwLockWriteGuard};
    use rand::Rng;
    use std::sync::atomic::{AtomicUsize, Ordering};
    use std::sync::mpsc::channel;
    use std::sync::Arc;
    use std::thread;
    use std::time::Duration;

    #[cfg(feature = "serde")]
    use bincode::{deserialize, serialize};

    #[derive(Eq, PartialEq, Debug)]
    struct NonCopy(i32);

    #[test]
    fn smoke() {
        let l = RwLock::new(());
        drop(l.read());
        drop(l.write());
        drop(l.upgradable_read());
        drop((l.read(), l.read()));
        drop((l.read(), l.upgradable_read()));
        drop(l.write());
    }

    #[test]
    fn frob() {
        const N: u32 = 10;
        const M: u32 = 1000;

        let r = Arc::new(RwLock::new(()));

        let (tx, rx) = channel::<()>();
        for _ in 0..N {
            let tx = tx.clone();
            let r = r.clone();
            thread::spawn(move || {
                let mut rng = rand::thread_rng();
                for _ in 0..M {
                    if rng.gen_bool(1.0 / N as f64) {
                        drop(r.write());
                    } else {
                        drop(r.read());
                    }
                }
                drop(tx);
            });
        }
        drop(tx);
        let _ = rx.recv();
    }

    #[test]
    fn test_rw_arc_no_poison_wr() {
        let arc = Arc::new(RwLock::new(1));
        let arc2 = arc.clone();
        let _: Result<(), _> = thread::spawn(move || {
            let _lock = arc2.write();
            panic!();
        })
        .join();
        let lock = arc.read();
        assert_eq!(*lock, 1);
    }

    #[test]
    fn test_rw_arc_no_poison_ww() {
        let arc = Arc::new(RwLock::new(1));
        let arc2 = arc.clone();
        let _: Result<(), _> = thread::spawn(move || {
            let _lock = arc2.write();
            panic!();
        })
        .join();
        let lock = arc.write();
        assert_eq!(*lock, 1);
    }

    #[test]
    fn test_rw_arc_no_poison_rr() {
        let arc = Arc::new(RwLock::new(1));
        let arc2 = arc.clone();
        let _: Result<(), _> = thread::spawn(move || {
            let _lock = arc2.read();
            panic!();
        })
        .join();
        let lock = arc.read();
        assert_eq!(*lock, 1);
    }

    #[test]
    fn test_rw_arc_no_poison_rw() {
        let arc = Arc::new(RwLock::new(1));
        let arc2 = arc.clone();
        let _: Result<(), _> = thread::spawn(move || {
            let _lock = arc2.read();
            panic!()
        })
        .join();
        let lock = arc.write();
        assert_eq!(*lock, 1);
    }

    #[test]
    fn test_ruw_arc() {
        let arc = Arc::new(RwLock::new(0));
        let arc2 = arc.clone();
        let (tx, rx) = channel();

        thread::spawn(move || {
            for _ in 0..10 {
                let mut lock = arc2.write();
                let tmp = *lock;
                *lock = -1;
                thread::yield_now();
                *lock = tmp + 1;
            }
            tx.send(()).unwrap();
        });

        let mut children = Vec::new();

        // Upgradable readers try to catch the writer in the act and also
        // try to touch the value
        for _ in 0..5 {
            let arc3 = arc.clone();
            children.push(thread::spawn(move || {
                let lock = arc3.upgradable_read();
                let tmp = *lock;
                assert!(tmp >= 0);
                thread::yield_now();
                let mut lock = RwLockUpgradableReadGuard::upgrade(lock);
                assert_eq!(tmp, *lock);
                *lock = -1;
                thread::yield_now();
                *lock = tmp + 1;
            }));
        }

        // Readers try to catch the writers in the act
        for _ in 0..5 {
            let arc4 = arc.clone();
            children.push(thread::spawn(move || {
                let lock = arc4.read();
                assert!(*lock >= 0);
            }));
        }

        // Wait for children to pass their asserts
        for r in children {
            assert!(r.join().is_ok());
        }

        // Wait for writer to finish
        rx.recv().unwrap();
        let lock = arc.read();
        assert_eq!(*lock, 15);
    }

    #[test]
    fn test_rw_arc() {
        let arc = Arc::new(RwLock::new(0));
        let arc2 = arc.clone();
        let (tx, rx) = channel();

        thread::spawn(move || {
            let mut lock = arc2.write();
            for _ in 0..10 {
                let tmp = *lock;
                *lock = -1;
                thread::yield_now();
                *lock = tmp + 1;
            }
            tx.send(()).unwrap();
        });

        // Readers try to catch the writer in the act
        let mut children = Vec::new();
        for _ in 0..5 {
            let arc3 = arc.clone();
            children.push(thread::spawn(move || {
                let lock = arc3.read();
                assert!(*lock >= 0);
            }));
        }

        // Wait for children to pass their asserts
        for r in children {
            assert!(r.join().is_ok());
        }

        // Wait for writer to finish
        rx.recv().unwrap();
        let lock = arc.read();
        assert_eq!(*lock, 10);
    }

    #[test]
    fn test_rw_arc_access_in_unwind() {
        let arc = Arc::new(RwLock::new(1));
        let arc2 = arc.clone();
        let _ = thread::spawn(move || {
            struct Unwinder {
                i: Arc<RwLock<isize>>,
            }
            impl Drop for Unwinder {
                fn drop(&mut self) {
                    let mut lock = self.i.write();
                    *lock += 1;
                }
            }
            let _u = Unwinder { i: arc2 };
            panic!();
        })
        .join();
        let lock = arc.read();
        assert_eq!(*lock, 2);
    }

    #[test]
    fn test_rwlock_unsized() {
        let rw: &RwLock<[i32]> = &RwLock::new([1, 2, 3]);
        {
            let b = &mut *rw.write();
            b[0] = 4;
            b[2] = 5;
        }
        let comp: &[i32] = &[4, 2, 5];
        assert_eq!(&*rw.read(), comp);
    }

    #[test]
    fn test_rwlock_try_read() {
        let lock = RwLock::new(0isize);
        {
            let read_guard = lock.read();

            let read_result = lock.try_read();
            assert!(
                read_result.is_some(),
                "try_read should succeed while read_guard is in scope"
            );

            drop(read_guard);
        }
        {
            let upgrade_guard = lock.upgradable_read();

            let read_result = lock.try_read();
            assert!(
                read_result.is_some(),
                "try_read should succeed while upgrade_guard is in scope"
            );

            drop(upgrade_guard);
        }
        {
            let write_guard = lock.write();

            let read_result = lock.try_read();
            assert!(
                read_result.is_none(),
                "try_read should fail while write_guard is in scope"
            );

            drop(write_guard);
        }
    }

    #[test]
    fn test_rwlock_try_write() {
        let lock = RwLock::new(0isize);
        {
            let read_guard = lock.read();

            let write_result = lock.try_write();
            assert!(
                write_result.is_none(),
                "try_write should fail while read_guard is in scope"
            );
            assert!(lock.is_locked());
            assert!(!lock.is_locked_exclusive());

            drop(read_guard);
        }
        {
            let upgrade_guard = lock.upgradable_read();

            let write_result = lock.try_write();
            assert!(
                write_result.is_none(),
                "try_write should fail while upgrade_guard is in scope"
            );
            assert!(lock.is_locked());
            assert!(!lock.is_locked_exclusive());

            drop(upgrade_guard);
        }
        {
            let write_guard = lock.write();

            let write_result = lock.try_write();
            assert!(
                write_result.is_none(),
                "try_write should fail while write_guard is in scope"
            );
            assert!(lock.is_locked());
            assert!(lock.is_locked_exclusive());

            drop(write_guard);
        }
    }

    #[test]
    fn test_rwlock_try_upgrade() {
        let lock = RwLock::new(0isize);
        {
            let read_guard = lock.read();

            let upgrade_result = lock.try_upgradable_read();
            assert!(
                upgrade_result.is_some(),
                "try_upgradable_read should succeed while read_guard is in scope"
            );

            drop(read_guard);
        }
        {
            let upgrade_guard = lock.upgradable_read();

            let upgrade_result = lock.try_upgradable_read();
            assert!(
                upgrade_result.is_none(),
                "try_upgradable_read should fail while upgrade_guard is in scope"
            );

            drop(upgrade_guard);
        }
        {
            let write_guard = lock.write();

            let upgrade_result = lock.try_upgradable_read();
            assert!(
                upgrade_result.is_none(),
                "try_upgradable should fail while write_guard is in scope"
            );

            drop(write_guard);
        }
    }

    #[test]
    fn test_into_inner() {
        let m = RwLock::new(NonCopy(10));
        assert_eq!(m.into_inner(), NonCopy(10));
    }

    #[test]
    fn test_into_inner_drop() {
        struct Foo(Arc<AtomicUsize>);
        impl Drop for Foo {
            fn drop(&mut self) {
                self.0.fetch_add(1, Ordering::SeqCst);
            }
        }
        let num_drops = Arc::new(AtomicUsize::new(0));
        let m = RwLock::new(Foo(num_drops.clone()));
        assert_eq!(num_drops.load(Ordering::SeqCst), 0);
        {
            let _inner = m.into_inner();
            assert_eq!(num_drops.load(Ordering::SeqCst), 0);
        }
        assert_eq!(num_drops.load(Ordering::SeqCst), 1);
    }

    #[test]
    fn test_get_mut() {
        let mut m = RwLock::new(NonCopy(10));
        *m.get_mut() = NonCopy(20);
        assert_eq!(m.into_inner(), NonCopy(20));
    }

    #[test]
    fn test_rwlockguard_sync() {
        fn sync<T: Sync>(_: T) {}

        let rwlock = RwLock::new(());
        sync(rwlock.read());
        sync(rwlock.write());
    }

    #[test]
    fn test_rwlock_downgrade() {
        let x = Arc::new(RwLock::new(0));
        let mut handles = Vec::new();
        for _ in 0..8 {
            let x = x.clone();
            handles.push(thread::spawn(move || {
                for _ in 0..100 {
                    let mut writer = x.write();
                    *writer += 1;
                    let cur_val = *writer;
                    let reader = RwLockWriteGuard::downgrade(writer);
                    assert_eq!(cur_val, *reader);
                }
            }));
        }
        for handle in handles {
            handle.join().unwrap()
        }
        assert_eq!(*x.read(), 800);
    }

    #[test]
    fn test_rwlock_recursive() {
        let arc = Arc::new(RwLock::new(1));
        let arc2 = arc.clone();
        let lock1 = arc.read();
        let t = thread::spawn(move || {
            let _lock = arc2.write();
        });

        if cfg!(not(all(target_env = "sgx", target_vendor = "fortanix"))) {
            thread::sleep(Duration::from_millis(100));
        } else {
            // FIXME: https://github.com/fortanix/rust-sgx/issues/31
            for _ in 0..100 {
                thread::yield_now();
            }
        }

        // A normal read would block here since there is a pending writer
        let lock2 = arc.read_recursive();

        // Unblock the thread and join it.
        drop(lock1);
        drop(lock2);
        t.join().unwrap();
    }

    #[test]
    fn test_rwlock_debug() {
        let x = RwLock::new(vec![0u8, 10]);

        assert_eq!(format!("{:?}", x), "RwLock { data: [0, 10] }");
        let _lock = x.write();
        assert_eq!(format!("{:?}", x), "RwLock { data: <locked> }");
    }

    #[test]
    fn test_clone() {
        let rwlock = RwLock::new(Arc::new(1));
        let a = rwlock.read_recursive();
        let b = a.clone();
        assert_eq!(Arc::strong_count(&b), 2);
    }

    #[cfg(feature = "serde")]
    #[test]
    fn test_serde() {
        let contents: Vec<u8> = vec![0, 1, 2];
        let mutex = RwLock::new(contents.clone());

        let serialized = serialize(&mutex).unwrap();
        let deserialized: RwLock<Vec<u8>> = deserialize(&serialized).unwrap();

        assert_eq!(*(mutex.read()), *(deserialized.read()));
        assert_eq!(contents, *(deserialized.read()));
    }

    #[test]
    fn test_issue_203() {
        struct Bar(RwLock<()>);

        impl Drop for Bar {
            fn drop(&mut self) {
                let _n = self.0.write();
            }
        }

        thread_local! {
            static B: Bar = Bar(RwLock::new(()));
        }

        thread::spawn(|| {
            B.with(|_| ());

            let a = RwLock::new(());
            let _a = a.read();
        })
        .join()
        .unwrap();
    }

    #[test]
    fn test_rw_write_is_locked() {
        let lock = RwLock::new(0isize);
        {
            let _read_guard = lock.read();

            assert!(lock.is_locked());
            assert!(!lock.is_locked_exclusive());
        }

        {
            let _write_guard = lock.write();

            assert!(lock.is_locked());
            assert!(lock.is_locked_exclusive());
        }
    }

    #[test]
    #[cfg(feature = "arc_lock")]
    fn test_issue_430() {
        let lock = std::sync::Arc::new(RwLock::new(0));

        let mut rl = lock.upgradable_read_arc();

        rl.with_upgraded(|_| {
            println!("lock upgrade");
        });

        rl.with_upgraded(|_| {
            println!("lock upgrade");
        });

        drop(lock);
    }
}
