// Copyright 2016 Amanieu d'Antras
//
// Licensed under the Apache License, Version 2.0, <LICENSE-APACHE or
// http://apache.org/licenses/LICENSE-2.0> or the MIT license <LICENSE-MIT or
// http://opensource.org/licenses/MIT>, at your option. This file may not be
// copied, modified, or distributed except according to those terms.

use crate::mutex::MutexGuard;
use crate::raw_mutex::{RawMutex, TOKEN_HANDOFF, TOKEN_NORMAL};
use crate::{deadlock, util};
use core::{
    fmt, ptr,
    sync::atomic::{AtomicPtr, Ordering},
};
use lock_api::RawMutex as RawMutex_;
use parking_lot_core::{self, ParkResult, RequeueOp, UnparkResult, DEFAULT_PARK_TOKEN};
use std::ops::DerefMut;
use std::time::{Duration, Instant};

/// A type indicating whether a timed wait on a condition variable returned
/// due to a time out or not.
#[derive(Debug, PartialEq, Eq, Copy, Clone)]
pub struct WaitTimeoutResult(bool);

impl WaitTimeoutResult {
    /// Returns whether the wait was known to have timed out.
    #[inline]
    pub fn timed_out(self) -> bool {
        self.0
    }
}

/// A Condition Variable
///
/// Condition variables represent the ability to block a thread such that it
/// consumes no CPU time while waiting for an event to occur. Condition
/// variables are typically associated with a boolean predicate (a condition)
/// and a mutex. The predicate is always verified inside of the mutex before
/// determining that thread must block.
///
/// Note that this module places one additional restriction over the system
/// condition variables: each condvar can be used with only one mutex at a
/// time. Any attempt to use multiple mutexes on the same condition variable
/// simultaneously will result in a runtime panic. However it is possible to
/// switch to a different mutex if there are no threads currently waiting on
/// the condition variable.
///
/// # Differences from the standard library `Condvar`
///
/// - No spurious wakeups: A wait will only return a non-timeout result if it
///   was woken up by `notify_one` or `notify_all`.
/// - `Condvar::notify_all` will only wake up a single thread, the rest are
///   requeued to wait for the `Mutex` to be unlocked by the thread that was
///   woken up.
/// - Only requires 1 word of space, whereas the standard library boxes the
///   `Condvar` due to platform limitations.
/// - Can be statically constructed.
/// - Does not require any drop glue when dropped.
/// - Inline fast path for the uncontended case.
///
/// # Examples
///
/// ```
/// use parking_lot::{Mutex, Condvar};
/// use std::sync::Arc;
/// use std::thread;
///
/// let pair = Arc::new((Mutex::new(false), Condvar::new()));
/// let pair2 = pair.clone();
///
/// // Inside of our lock, spawn a new thread, and then wait for it to start
/// thread::spawn(move|| {
///     let &(ref lock, ref cvar) = &*pair2;
///     let mut started = lock.lock();
///     *started = true;
///     cvar.notify_one();
/// });
///
/// // wait for the thread to start up
/// let &(ref lock, ref cvar) = &*pair;
/// let mut started = lock.lock();
/// if !*started {
///     cvar.wait(&mut started);
/// }
/// // Note that we used an if instead of a while loop above. This is only
/// // possible because parking_lot's Condvar will never spuriously wake up.
/// // This means that wait() will only return after notify_one or notify_all is
/// // called.
/// ```
pub struct Condvar {
    state: AtomicPtr<RawMutex>,
}

impl Condvar {
    /// Creates a new condition variable which is ready to be waited on and
    /// notified.
    #[inline]
    pub const fn new() -> Condvar {
        Condvar {
            state: AtomicPtr::new(ptr::null_mut()),
        }
    }

    /// Wakes up one blocked thread on this condvar.
    ///
    /// Returns whether a thread was woken up.
    ///
    /// If there is a blocked thread on this condition variable, then it will
    /// be woken up from its call to `wait` or `wait_timeout`. Calls to
    /// `notify_one` are not buffered in any way.
    ///
    /// To wake up all threads, see `notify_all()`.
    ///
    /// # Examples
    ///
    /// ```
    /// use parking_lot::Condvar;
    ///
    /// let condvar = Condvar::new();
    ///
    /// // do something with condvar, share it with other threads
    ///
    /// if !condvar.notify_one() {
    ///     println!("Nobody was listening for this.");
    /// }
    /// ```
    #[inline]
    pub fn notify_one(&self) -> bool {
        // Nothing to do if there are no waiting threads
        let state = self.state.load(Ordering::Relaxed);
        if state.is_null() {
            return false;
        }

        self.notify_one_slow(state)
    }

    #[cold]
    fn notify_one_slow(&self, mutex: *mut RawMutex) -> bool {
        // Unpark one thread and requeue the rest onto the mutex
        let from = self as *const _ as usize;
        let to = mutex as usize;
        let validate = || {
            // Make sure that our atomic state still points to the same
            // mutex. If not then it means that all threads on the current
            // mutex were woken up and a new waiting thread switched to a
            // different mutex. In that case we can get away with doing
            // nothing.
            if self.state.load(Ordering::Relaxed) != mutex {
                return RequeueOp::Abort;
            }

            // Unpark one thread if the mutex is unlocked, otherwise just
            // requeue everything to the mutex. This is safe to do here
            // since unlocking the mutex when the parked bit is set requires
            // locking the queue. There is the possibility of a race if the
            // mutex gets locked after we check, but that doesn't matter in
            // this case.
            if unsafe { (*mutex).mark_parked_if_locked() } {
                RequeueOp::RequeueOne
            } else {
                RequeueOp::UnparkOne
            }
        };
        let callback = |_op, result: UnparkResult| {
            // Clear our state if there are no more waiting threads
            if !result.have_more_threads {
                self.state.store(ptr::null_mut(), Ordering::Relaxed);
            }
            TOKEN_NORMAL
        };
        let res = unsafe { parking_lot_core::unpark_requeue(from, to, validate, callback) };

        res.unparked_threads + res.requeued_threads != 0
    }

    /// Wakes up all blocked threads on this condvar.
    ///
    /// Returns the number of threads woken up.
    ///
    /// This method will ensure that any current waiters on the condition
    /// variable are awoken. Calls to `notify_all()` are not buffered in any
    /// way.
    ///
    /// To wake up only one thread, see `notify_one()`.
    #[inline]
    pub fn notify_all(&self) -> usize {
        // Nothing to do if there are no waiting threads
        let state = self.state.load(Ordering::Relaxed);
        if state.is_null() {
            return 0;
        }

        self.notify_all_slow(state)
    }

    #[cold]
    fn notify_all_slow(&self, mutex: *mut RawMutex) -> usize {
        // Unpark one thread and requeue the rest onto the mutex
        let from = self as *const _ as usize;
        let to = mutex as usize;
        let validate = || {
            // Make sure that our atomic state still points to the same
            // mutex. If not then it means that all threads on the current
            // mutex were woken up and a new waiting thread switched to a
            // different mutex. In that case we can get away with doing
            // nothing.
            if self.state.load(Ordering::Relaxed) != mutex {
                return RequeueOp::Abort;
            }

            // Clear our state since we are going to unpark or requeue all
            // threads.
            self.state.store(ptr::null_mut(), Ordering::Relaxed);

            // Unpark one thread if the mutex is unlocked, otherwise just
            // requeue everything to the mutex. This is safe to do here
            // since unlocking the mutex when the parked bit is set requires
            // locking the queue. There is the possibility of a race if the
            // mutex gets locked after we check, but that doesn't matter in
            // this case.
            if unsafe { (*mutex).mark_parked_if_locked() } {
                RequeueOp::RequeueAll
            } else {
                RequeueOp::UnparkOneRequeueRest
            }
        };
        let callback = |op, result: UnparkResult| {
            // If we requeued threads to the mutex, mark it as having
            // parked threads. The RequeueAll case is already handled above.
            if op == RequeueOp::UnparkOneRequeueRest && result.requeued_threads != 0 {
                unsafe { (*mutex).mark_parked() };
            }
            TOKEN_NORMAL
        };
        let res = unsafe { parking_lot_core::unpark_requeue(from, to, validate, callback) };

        res.unparked_threads + res.requeued_threads
    }

    /// Blocks the current thread until this condition variable receives a
    /// notification.
    ///
    /// This function will atomically unlock the mutex specified (represented by
    /// `mutex_guard`) and block the current thread. This means that any calls
    /// to `notify_*()` which happen logically after the mutex is unlocked are
    /// candidates to wake this thread up. When this function call returns, the
    /// lock specified will have been re-acquired.
    ///
    /// # Panics
    ///
    /// This function will panic if another thread is waiting on the `Condvar`
    /// with a different `Mutex` object.
    #[inline]
    pub fn wait<T: ?Sized>(&self, mutex_guard: &mut MutexGuard<'_, T>) {
        self.wait_until_internal(unsafe { MutexGuard::mutex(mutex_guard).raw() }, None);
    }

    /// Waits on this condition variable for a notification, timing out after
    /// the specified time instant.
    ///
    /// The semantics of this function are equivalent to `wait()` except that
    /// the thread will be blocked roughly until `timeout` is reached. This
    /// method should not be used for precise timing due to anomalies such as
    /// preemption or platform differences that may not cause the maximum
    /// amount of time waited to be precisely `timeout`.
    ///
    /// Note that the best effort is made to ensure that the time waited is
    /// measured with a monotonic clock, and not affected by the changes made to
    /// the system time.
    ///
    /// The returned `WaitTimeoutResult` value indicates if the timeout is
    /// known to have elapsed.
    ///
    /// Like `wait`, the lock specified will be re-acquired when this function
    /// returns, regardless of whether the timeout elapsed or not.
    ///
    /// # Panics
    ///
    /// This function will panic if another thread is waiting on the `Condvar`
    /// with a different `Mutex` object.
    #[inline]
    pub fn wait_until<T: ?Sized>(
        &self,
        mutex_guard: &mut MutexGuard<'_, T>,
        timeout: Instant,
    ) -> WaitTimeoutResult {
        self.wait_until_internal(
            unsafe { MutexGuard::mutex(mutex_guard).raw() },
            Some(timeout),
        )
    }

    // This is a non-generic function to reduce the monomorphization cost of
    // using `wait_until`.
    fn wait_until_internal(&self, mutex: &RawMutex, timeout: Option<Instant>) -> WaitTimeoutResult {
        let result;
        let mut bad_mutex = false;
        let mut requeued = false;
        {
            let addr = self as *const _ as usize;
            let lock_addr = mutex as *const _ as *mut _;
            let validate = || {
                // Ensure we don't use two different mutexes with the same
                // Condvar at the same time. This is done while locked to
                // avoid races with notify_one
                let state = self.state.load(Ordering::Relaxed);
                if state.is_null() {
                    self.state.store(lock_addr, Ordering::Relaxed);
                } else if state != lock_addr {
                    bad_mutex = true;
                    return false;
                }
                true
            };
            let before_sleep = || {
                // Unlock the mutex before sleeping...
                unsafe { mutex.unlock() };
            };
            let timed_out = |k, was_last_thread| {
                // If we were requeued to a mutex, then we did not time out.
                // We'll just park ourselves on the mutex again when we try
                // to lock it later.
                requeued = k != addr;

                // If we were the last thread on the queue then we need to
                // clear our state. This is normally done by the
                // notify_{one,all} functions when not timing out.
                if !requeued && was_last_thread {
                    self.state.store(ptr::null_mut(), Ordering::Relaxed);
                }
            };
            result = unsafe {
                parking_lot_core::park(
                    addr,
                    validate,
                    before_sleep,
                    timed_out,
                    DEFAULT_PARK_TOKEN,
                    timeout,
                )
            };
        }

        // Panic if we tried to use multiple mutexes with a Condvar. Note
        // that at this point the MutexGuard is still locked. It will be
        // unlocked by the unwinding logic.
        if bad_mutex {
            panic!("attempted to use a condition variable with more than one mutex");
        }

        // ... and re-lock it once we are done sleeping
        if result == ParkResult::Unparked(TOKEN_HANDOFF) {
            unsafe { deadlock::acquire_resource(mutex as *const _ as usize) };
        } else {
            mutex.lock();
        }

        WaitTimeoutResult(!(result.is_unparked() || requeued))
    }

    /// Waits on this condition variable for a notification, timing out after a
    /// specified duration.
    ///
    /// The semantics of this function are equivalent to `wait()` except that
    /// the thread will be blocked for roughly no longer than `timeout`. This
    /// method should not be used for precise timing due to anomalies such as
    /// preemption or platform differences that may not cause the maximum
    /// amount of time waited to be precisely `timeout`.
    ///
    /// Note that the best effort is made to ensure that the time waited is
    /// measured with a monotonic clock, and not affected by the changes made to
    /// the system time.
    ///
    /// The returned `WaitTimeoutResult` value indicates if the timeout is
    /// known to have elapsed.
    ///
    /// Like `wait`, the lock specified will be re-acquired when this function
    /// returns, regardless of whether the timeout elapsed or not.
    #[inline]
    pub fn wait_for<T: ?Sized>(
        &self,
        mutex_guard: &mut MutexGuard<'_, T>,
        timeout: Duration,
    ) -> WaitTimeoutResult {
        let deadline = util::to_deadline(timeout);
        self.wait_until_internal(unsafe { MutexGuard::mutex(mutex_guard).raw() }, deadline)
    }

    #[inline]
    fn wait_while_until_internal<T, F>(
        &self,
        mutex_guard: &mut MutexGuard<'_, T>,
        mut condition: F,
        timeout: Option<Instant>,
    ) -> WaitTimeoutResult
    where
        T: ?Sized,
        F: FnMut(&mut T) -> bool,
    {
        let mut result = WaitTimeoutResult(false);

        while !result.timed_out() && condition(mutex_guard.deref_mut()) {
            result =
                self.wait_until_internal(unsafe { MutexGuard::mutex(mutex_guard).raw() }, timeout);
        }

        result
    }
    /// Blocks the current thread until this condition variable receives a
    /// notification. If the provided condition evaluates to `false`, then the
    /// thread is no longer blocked and the operation is completed. If the
    /// condition evaluates to `true`, then the thread is blocked again and
    /// waits for another notification before repeating this process.
    ///
    /// This function will atomically unlock the mutex specified (represented by
    /// `mutex_guard`) and block the current thread. This means that any calls
    /// to `notify_*()` which happen logically after the mutex is unlocked are
    /// candidates to wake this thread up. When this function call returns, the
    /// lock specified will have been re-acquired.
    ///
    /// # Panics
    ///
    /// This function will panic if another thread is waiting on the `Condvar`
    /// with a different `Mutex` object.
    #[inline]
    pub fn wait_while<T, F>(&self, mutex_guard: &mut MutexGuard<'_, T>, condition: F)
    where
        T: ?Sized,
        F: FnMut(&mut T) -> bool,
    {
        self.wait_while_until_internal(mutex_guard, condition, None);
    }

    /// Waits on this condition variable for a notification, timing out after
    /// the specified time instant. If the provided condition evaluates to
    /// `false`, then the thread is no longer blocked and the operation is
    /// completed. If the condition evaluates to `true`, then the thread is
    /// blocked again and waits for another notification before repeating
    /// this process.
    ///
    /// The semantics of this function are equivalent to `wait()` except that
    /// the thread will be blocked roughly until `timeout` is reached. This
    /// method should not be used for precise timing due to anomalies such as
    /// preemption or platform differences that may not cause the maximum
    /// amount of time waited to be precisely `timeout`.
    ///
    /// Note that the best effort is made to ensure that the time waited is
    /// measured with a monotonic clock, and not affected by the changes made to
    /// the system time.
    ///
    /// The returned `WaitTimeoutResult` value indicates if the timeout is
    /// known to have elapsed.
    ///
    /// Like `wait`, the lock specified will be re-acquired when this function
    /// returns, regardless of whether the timeout elapsed or not.
    ///
    /// # Panics
    ///
    /// This function will panic if another thread is waiting on the `Condvar`
    /// with a different `Mutex` object.
    #[inline]
    pub fn wait_while_until<T, F>(
        &self,
        mutex_guard: &mut MutexGuard<'_, T>,
        condition: F,
        timeout: Instant,
    ) -> WaitTimeoutResult
    where
        T: ?Sized,
        F: FnMut(&mut T) -> bool,
    {
        self.wait_while_until_internal(mutex_guard, condition, Some(timeout))
    }

    /// Waits on this condition variable for a notification, timing out after a
    /// specified duration. If the provided condition evaluates to `false`,
    /// then the thread is no longer blocked and the operation is completed.
    /// If the condition evaluates to `true`, then the thread is blocked again
    /// and waits for another notification before repeating this process.
    ///
    /// The semantics of this function are equivalent to `wait()` except that
    /// the thread will be blocked for roughly no longer than `timeout`. This
    /// method should not be used for precise timing due to anomalies such as
    /// preemption or platform differences that may not cause the maximum
    /// amount of time waited to be precisely `timeout`.
    ///
    /// Note that the best effort is made to ensure that the time waited is
    /// measured with a monotonic clock, and not affected by the changes made to
    /// the system time.
    ///
    /// The returned `WaitTimeoutResult` value indicates if the timeout is
    /// known to have elapsed.
    ///
    /// Like `wait`, the lock specified will be re-acquired when this function
    /// returns, regardless of whether the timeout elapsed or not.
    #[inline]
    pub fn wait_while_for<T: ?Sized, F>(
        &self,
        mutex_guard: &mut MutexGuard<'_, T>,
        condition: F,
        timeout: Duration,
    ) -> WaitTimeoutResult
    where
        F: FnMut(&mut T) -> bool,
    {
        let deadline = util::to_deadline(timeout);
        self.wait_while_until_internal(mutex_guard, condition, deadline)
    }
}

impl Default for Condvar {
    #[inline]
    fn default() -> Condvar {
        Condvar::new()
    }
}

impl fmt::Debug for Condvar {
    fn fmt(&self, f: &mut fmt::Formatter<'_>) -> fmt::Result {
        f.pad("Condvar { .. }")
    }
}

#[cfg(test)]
mod tests {
    use crate::{Condvar, Mutex, MutexGuard};
    use std::sync::mpsc::channel;
    use std::sync::Arc;
    use std::thread;
    use std::thread::sleep;
    use std::thread::JoinHandle;
    use std::time::Duration;
    use std::time::Instant;

    #[test]
    fn smoke() {
        let c = Condvar::new();
        c.notify_one();
        c.notify_all();
    }

    #[test]
    fn notify_one() {
        let m = Arc::new(Mutex::new(()));
        let m2 = m.clone();
        let c = Arc::new(Condvar::new());
        let c2 = c.clone();

        let mut g = m.lock();
        let _t = thread::spawn(move || {
            let _g = m2.lock();
            c2.notify_one();
        });
        c.wait(&mut g);
    }

    #[test]
    fn notify_all() {
        const N: usize = 10;

        let data = Arc::new((Mutex::new(0), Condvar::new()));
        let (tx, rx) = channel();
        for _ in 0..N {
            let data = data.clone();
            let tx = tx.clone();
            thread::spawn(move || {
                let (lock, cond) = &*data;
                let mut cnt = lock.lock();
                *cnt += 1;
                if *cnt == N {
                    tx.send(()).unwrap();
                }
                while *cnt != 0 {
                    cond.wait(&mut cnt);
                }
                tx.send(()).unwrap();
            });
        }
        drop(tx);

        let (lock, cond) = &*data;
        rx.recv().unwrap();
        let mut cnt = lock.lock();
        *cnt = 0;
        cond.notify_all();
        drop(cnt);

        for _ in 0..N {
            rx.recv().unwrap();
        }
    }

    #[test]
    fn notify_one_return_true() {
        let m = Arc::new(Mutex::new(()));
        let m2 = m.clone();
        let c = Arc::new(Condvar::new());
        let c2 = c.clone();

        let mut g = m.lock();
        let _t = thread::spawn(move || {
            let _g = m2.lock();
            assert!(c2.notify_one());
        });
        c.wait(&mut g);
    }

    #[test]
    fn notify_one_return_false() {
        let m = Arc::new(Mutex::new(()));
        let c = Arc::new(Condvar::new());

        let _t = thread::spawn(move || {
            let _g = m.lock();
            assert!(!c.notify_one());
        });
    }

    #[test]
    fn notify_all_return() {
        const N: usize = 10;

        let data = Arc::new((Mutex::new(0), Condvar::new()));
        let (tx, rx) = channel();
        for _ in 0..N {
            let data = data.clone();
            let tx = tx.clone();
            thread::spawn(move || {
                let (lock, cond) = &*data;
                let mut cnt = lock.lock();
                *cnt += 1;
                if *cnt == N {
                    tx.send(()).unwrap();
                }
                while *cnt != 0 {
                    cond.wait(&mut cnt);
                }
                tx.send(()).unwrap();
            });
        }
        drop(tx);

        let (lock, cond) = &*data;
        rx.recv().unwrap();
        let mut cnt = lock.lock();
        *cnt = 0;
        assert_eq!(cond.notify_all(), N);
        drop(cnt);

        for _ in 0..N {
            rx.recv().unwrap();
        }

        assert_eq!(cond.notify_all(), 0);
    }

    #[test]
    fn wait_for() {
        let m = Arc::new(Mutex::new(()));
        let m2 = m.clone();
        let c = Arc::new(Condvar::new());
        let c2 = c.clone();

        let mut g = m.lock();
        let no_timeout = c.wait_for(&mut g, Duration::from_millis(1));
        assert!(no_timeout.timed_out());

        let _t = thread::spawn(move || {
            let _g = m2.lock();
            c2.notify_one();
        });
        let timeout_res = c.wait_for(&mut g, Duration::from_secs(u64::max_value()));
        assert!(!timeout_res.timed_out());

        drop(g);
    }

    #[test]
    fn wait_until() {
        let m = Arc::new(Mutex::new(()));
        let m2 = m.clone();
        let c = Arc::new(Condvar::new());
        let c2 = c.clone();

        let mut g = m.lock();
        let no_timeout = c.wait_until(&mut g, Instant::now() + Duration::from_millis(1));
        assert!(no_timeout.timed_out());
        let _t = thread::spawn(move || {
            let _g = m2.lock();
            c2.notify_one();
        });
        let timeout_res = c.wait_until(
            &mut g,
            Instant::now() + Duration::from_millis(u32::max_value() as u64),
        );
        assert!(!timeout_res.timed_out());
        drop(g);
    }

    fn spawn_wait_while_notifier(
        mutex: Arc<Mutex<u32>>,
        cv: Arc<Condvar>,
        num_iters: u32,
        timeout: Option<Instant>,
    ) -> JoinHandle<()> {
        thread::spawn(move || {
            for epoch in 1..=num_iters {
                // spin to wait for main test thread to block
                // before notifying it to wake back up and check
                // its condition.
                let mut sleep_backoff = Duration::from_millis(1);
                let _mutex_guard = loop {
                    let mutex_guard = mutex.lock();

                    if let Some(timeout) = timeout {
                        if Instant::now() >= timeout {
                            return;
                        }
                    }

                    if *mutex_guard == epoch {
                        break mutex_guard;
                    }

                    drop(mutex_guard);

                    // give main test thread a good chance to
                    // acquire the lock before this thread does.
                    sleep(sleep_backoff);
                    sleep_backoff *= 2;
                };

                cv.notify_one();
            }
        })
    }

    #[test]
    fn wait_while_until_internal_does_not_wait_if_initially_false() {
        let mutex = Arc::new(Mutex::new(0));
        let cv = Arc::new(Condvar::new());

        let condition = |counter: &mut u32| {
            *counter += 1;
            false
        };

        let mut mutex_guard = mutex.lock();
        let timeout_result = cv.wait_while_until_internal(&mut mutex_guard, condition, None);

        assert!(!timeout_result.timed_out());
        assert!(*mutex_guard == 1);
    }

    #[test]
    fn wait_while_until_internal_times_out_before_false() {
        let mutex = Arc::new(Mutex::new(0));
        let cv = Arc::new(Condvar::new());

        let num_iters = 3;
        let condition = |counter: &mut u32| {
            *counter += 1;
            true
        };

        let mut mutex_guard = mutex.lock();
        let timeout = Some(Instant::now() + Duration::from_millis(500));
        let handle = spawn_wait_while_notifier(mutex.clone(), cv.clone(), num_iters, timeout);

        let timeout_result = cv.wait_while_until_internal(&mut mutex_guard, condition, timeout);

        assert!(timeout_result.timed_out());
        assert!(*mutex_guard == num_iters + 1);

        // prevent deadlock with notifier
        drop(mutex_guard);
        handle.join().unwrap();
    }

    #[test]
    fn wait_while_until_internal() {
        let mutex = Arc::new(Mutex::new(0));
        let cv = Arc::new(Condvar::new());

        let num_iters = 4;

        let condition = |counter: &mut u32| {
            *counter += 1;
            *counter <= num_iters
        };

        let mut mutex_guard = mutex.lock();
        let handle = spawn_wait_while_notifier(mutex.clone(), cv.clone(), num_iters, None);

        let timeout_result = cv.wait_while_until_internal(&mut mutex_guard, condition, None);

        assert!(!timeout_result.timed_out());
        assert!(*mutex_guard == num_iters + 1);

        let timeout_result = cv.wait_while_until_internal(&mut mutex_guard, condition, None);
        handle.join().unwrap();

        assert!(!timeout_result.timed_out());
        assert!(*mutex_guard == num_iters + 2);
    }

    #[test]
    #[should_panic]
    fn two_mutexes() {
        let m = Arc::new(Mutex::new(()));
        let m2 = m.clone();
        let m3 = Arc::new(Mutex::new(()));
        let c = Arc::new(Condvar::new());
        let c2 = c.clone();

        // Make sure we don't leave the child thread dangling
        struct PanicGuard<'a>(&'a Condvar);
        impl<'a> Drop for PanicGuard<'a> {
            fn drop(&mut self) {
                self.0.notify_one();
            }
        }

        let (tx, rx) = channel();
        let g = m.lock();
        let _t = thread::spawn(move || {
            let mut g = m2.lock();
            tx.send(()).unwrap();
            c2.wait(&mut g);
        });
        drop(g);
        rx.recv().unwrap();
        let _g = m.lock();
        let _guard = PanicGuard(&c);
        c.wait(&mut m3.lock());
    }

    #[test]
    fn two_mutexes_disjoint() {
        let m = Arc::new(Mutex::new(()));
        let m2 = m.clone();
        let m3 = Arc::new(Mutex::new(()));
        let c = Arc::new(Condvar::new());
        let c2 = c.clone();

        let mut g = m.lock();
        let _t = thread::spawn(move || {
            let _g = m2.lock();
            c2.notify_one();
        });
        c.wait(&mut g);
        drop(g);

        let _ = c.wait_for(&mut m3.lock(), Duration::from_millis(1));
    }

    #[test]
    fn test_debug_condvar() {
        let c = Condvar::new();
        assert_eq!(format!("{:?}", c), "Condvar { .. }");
    }

    #[test]
    fn test_condvar_requeue() {
        let m = Arc::new(Mutex::new(()));
        let m2 = m.clone();
        let c = Arc::new(Condvar::new());
        let c2 = c.clone();
        let t = thread::spawn(move || {
            let mut g = m2.lock();
            c2.wait(&mut g);
        });

        let mut g = m.lock();
        while !c.notify_one() {
            // Wait for the thread to get into wait()
            MutexGuard::bump(&mut g);
            // Yield, so the other thread gets a chance to do something.
            // (At least Miri needs this, because it doesn't preempt threads.)
            thread::yield_now();
        }
        // The thread should have been requeued to the mutex, which we wake up now.
        drop(g);
        t.join().unwrap();
    }

    #[test]
    fn test_issue_129() {
        let locks = Arc::new((Mutex::new(()), Condvar::new()));

        let (tx, rx) = channel();
        for _ in 0..4 {
            let locks = locks.clone();
            let tx = tx.clone();
            thread::spawn(move || {
                let mut guard = locks.0.lock();
                locks.1.wait(&mut guard);
                locks.1.wait_for(&mut guard, Duration::from_millis(1));
                locks.1.notify_one();
                tx.send(()).unwrap();
            });
        }

        thread::sleep(Duration::from_millis(100));
        locks.1.notify_one();

        for _ in 0..4 {
            assert_eq!(rx.recv_timeout(Duration::from_millis(500)), Ok(()));
        }
    }
}

/// This module contains an integration test that is heavily inspired from WebKit's own integration
/// tests for it's own Condvar.
#[cfg(test)]
mod webkit_queue_test {
    use crate::{Condvar, Mutex, MutexGuard};
    use std::{collections::VecDeque, sync::Arc, thread, time::Duration};

    #[derive(Clone, Copy)]
    enum Timeout {
        Bounded(Duration),
        Forever,
    }

    #[derive(Clone, Copy)]
    enum NotifyStyle {
        One,
        All,
    }

    struct Queue {
        items: VecDeque<usize>,
        should_continue: bool,
    }

    impl Queue {
        fn new() -> Self {
            Self {
                items: VecDeque::new(),
                should_continue: true,
            }
        }
    }

    fn wait<T: ?Sized>(
        condition: &Condvar,
        lock: &mut MutexGuard<'_, T>,
        predicate: impl Fn(&mut MutexGuard<'_, T>) -> bool,
        timeout: &Timeout,
    ) {
        while !predicate(lock) {
            match timeout {
                Timeout::Forever => condition.wait(lock),
                Timeout::Bounded(bound) => {
                    condition.wait_for(lock, *bound);
                }
            }
        }
    }

    fn notify(style: NotifyStyle, condition: &Condvar, should_notify: bool) {
        match style {
            NotifyStyle::One => {
                condition.notify_one();
            }
            NotifyStyle::All => {
                if should_notify {
                    condition.notify_all();
                }
            }
        }
    }

    fn run_queue_test(
        num_producers: usize,
        num_consumers: usize,
        max_queue_size: usize,
        messages_per_producer: usize,
        notify_style: NotifyStyle,
        timeout: Timeout,
        delay: Duration,
    ) {
        let input_queue = Arc::new(Mutex::new(Queue::new()));
        let empty_condition = Arc::new(Condvar::new());
        let full_condition = Arc::new(Condvar::new());

        let output_vec = Arc::new(Mutex::new(vec![]));

        let consumers = (0..num_consumers)
            .map(|_| {
                consumer_thread(
                    input_queue.clone(),
                    empty_condition.clone(),
                    full_condition.clone(),
                    timeout,
                    notify_style,
                    output_vec.clone(),
                    max_queue_size,
                )
            })
            .collect::<Vec<_>>();
        let producers = (0..num_producers)
            .map(|_| {
                producer_thread(
                    messages_per_producer,
                    input_queue.clone(),
                    empty_condition.clone(),
                    full_condition.clone(),
                    timeout,
                    notify_style,
                    max_queue_size,
                )
            })
            .collect::<Vec<_>>();

        thread::sleep(delay);

        for producer in producers.into_iter() {
            producer.join().expect("Producer thread panicked");
        }

        {
            let mut input_queue = input_queue.lock();
            input_queue.should_continue = false;
        }
        empty_condition.notify_all();

        for consumer in consumers.into_iter() {
            consumer.join().expect("Consumer thread panicked");
        }

        let mut output_vec = output_vec.lock();
        assert_eq!(output_vec.len(), num_producers * messages_per_producer);
        output_vec.sort();
        for msg_idx in 0..messages_per_producer {
            for producer_idx in 0..num_producers {
                assert_eq!(msg_idx, output_vec[msg_idx * num_producers + producer_idx]);
            }
        }
    }

    fn consumer_thread(
        input_queue: Arc<Mutex<Queue>>,
        empty_condition: Arc<Condvar>,
        full_condition: Arc<Condvar>,
        timeout: Timeout,
        notify_style: NotifyStyle,
        output_queue: Arc<Mutex<Vec<usize>>>,
        max_queue_size: usize,
    ) -> thread::JoinHandle<()> {
        thread::spawn(move || loop {
            let (should_notify, result) = {
                let mut queue = input_queue.lock();
                wait(
                    &empty_condition,
                    &mut queue,
                    |state| -> bool { !state.items.is_empty() || !state.should_continue },
                    &timeout,
                );
                if queue.items.is_empty() && !queue.should_continue {
                    return;
                }
                let should_notify = queue.items.len() == max_queue_size;
                let result = queue.items.pop_front();
                std::mem::drop(queue);
                (should_notify, result)
            };
            notify(notify_style, &full_condition, should_notify);

            if let Some(result) = result {
                output_queue.lock().push(result);
            }
        })
    }

    fn producer_thread(
        num_messages: usize,
        queue: Arc<Mutex<Queue>>,
        empty_condition: Arc<Condvar>,
        full_condition: Arc<Condvar>,
        timeout: Timeout,
        notify_style: NotifyStyle,
        max_queue_size: usize,
    ) -> thread::JoinHandle<()> {
        thread::spawn(move || {
            for message in 0..num_messages {
                let should_notify = {
                    let mut queue = queue.lock();
                    wait(
                        &full_condition,
                        &mut queue,
                        |state| state.items.len() < max_queue_size,
                        &timeout,
                    );
                    let should_notify = queue.items.is_empty();
                    queue.items.push_back(message);
                    std::mem::drop(queue);
                    should_notify
                };
                notify(notify_style, &empty_condition, should_notify);
            }
        })
    }

    macro_rules! run_queue_tests {
        ( $( $name:ident(
            num_producers: $num_producers:expr,
            num_consumers: $num_consumers:expr,
            max_queue_size: $max_queue_size:expr,
            messages_per_producer: $messages_per_producer:expr,
            notification_style: $notification_style:expr,
            timeout: $timeout:expr,
            delay_seconds: $delay_seconds:expr);
        )* ) => {
            $(#[test]
            fn $name() {
                let delay = Duration::from_secs($delay_seconds);
                run_queue_test(
                    $num_producers,
                    $num_consumers,
                    $max_queue_size,
                    $messages_per_producer,
                    $notification_style,
                    $timeout,
                    delay,
                    );
            })*
        };
    }

    run_queue_tests! {
        sanity_check_queue(
            num_producers: 1,
            num_consumers: 1,
            max_queue_size: 1,
            messages_per_producer: 100_000,
            notification_style: NotifyStyle::All,
            timeout: Timeout::Bounded(Duration::from_secs(1)),
            delay_seconds: 0
        );
        sanity_check_queue_timeout(
            num_producers: 1,
            num_consumers: 1,
            max_queue_size: 1,
            messages_per_producer: 100_000,
            notification_style: NotifyStyle::All,
            timeout: Timeout::Forever,
            delay_seconds: 0
        );
        new_test_without_timeout_5(
            num_producers: 1,
            num_consumers: 5,
            max_queue_size: 1,
            messages_per_producer: 100_000,
            notification_style: NotifyStyle::All,
            timeout: Timeout::Forever,
            delay_seconds: 0
        );
        one_producer_one_consumer_one_slot(
            num_producers: 1,
            num_consumers: 1,
            max_queue_size: 1,
            messages_per_producer: 100_000,
            notification_style: NotifyStyle::All,
            timeout: Timeout::Forever,
            delay_seconds: 0
        );
        one_producer_one_consumer_one_slot_timeout(
            num_producers: 1,
            num_consumers: 1,
            max_queue_size: 1,
            messages_per_producer: 100_000,
            notification_style: NotifyStyle::All,
            timeout: Timeout::Forever,
            delay_seconds: 1
        );
        one_producer_one_consumer_hundred_slots(
            num_producers: 1,
            num_consumers: 1,
            max_queue_size: 100,
            messages_per_producer: 1_000_000,
            notification_style: NotifyStyle::All,
            timeout: Timeout::Forever,
            delay_seconds: 0
        );
        ten_producers_one_consumer_one_slot(
            num_producers: 10,
            num_consumers: 1,
            max_queue_size: 1,
            messages_per_producer: 10000,
            notification_style: NotifyStyle::All,
            timeout: Timeout::Forever,
            delay_seconds: 0
        );
        ten_producers_one_consumer_hundred_slots_notify_all(
            num_producers: 10,
            num_consumers: 1,
            max_queue_size: 100,
            messages_per_producer: 10000,
            notification_style: NotifyStyle::All,
            timeout: Timeout::Forever,
            delay_seconds: 0
        );
        ten_producers_one_consumer_hundred_slots_notify_one(
            num_producers: 10,
            num_consumers: 1,
            max_queue_size: 100,
            messages_per_producer: 10000,
            notification_style: NotifyStyle::One,
            timeout: Timeout::Forever,
            delay_seconds: 0
        );
        one_producer_ten_consumers_one_slot(
            num_producers: 1,
            num_consumers: 10,
            max_queue_size: 1,
            messages_per_producer: 10000,
            notification_style: NotifyStyle::All,
            timeout: Timeout::Forever,
            delay_seconds: 0
        );
        one_producer_ten_consumers_hundred_slots_notify_all(
            num_producers: 1,
            num_consumers: 10,
            max_queue_size: 100,
            messages_per_producer: 100_000,
            notification_style: NotifyStyle::All,
            timeout: Timeout::Forever,
            delay_seconds: 0
        );
        one_producer_ten_consumers_hundred_slots_notify_one(
            num_producers: 1,
            num_consumers: 10,
            max_queue_size: 100,
            messages_per_producer: 100_000,
            notification_style: NotifyStyle::One,
            timeout: Timeout::Forever,
            delay_seconds: 0
        );
        ten_producers_ten_consumers_one_slot(
            num_producers: 10,
            num_consumers: 10,
            max_queue_size: 1,
            messages_per_producer: 50000,
            notification_style: NotifyStyle::All,
            timeout: Timeout::Forever,
            delay_seconds: 0
        );
        ten_producers_ten_consumers_hundred_slots_notify_all(
            num_producers: 10,
            num_consumers: 10,
            max_queue_size: 100,
            messages_per_producer: 50000,
            notification_style: NotifyStyle::All,
            timeout: Timeout::Forever,
            delay_seconds: 0
        );
        ten_producers_ten_consumers_hundred_slots_notify_one(
            num_producers: 10,
            num_consumers: 10,
            max_queue_size: 100,
            messages_per_producer: 50000,
            notification_style: NotifyStyle::One,
            timeout: Timeout::Forever,
            delay_seconds: 0
        );
    }
}
