// Copyright 2016 Amanieu d'Antras
//
// Licensed under the Apache License, Version 2.0, <LICENSE-APACHE or
// http://apache.org/licenses/LICENSE-2.0> or the MIT license <LICENSE-MIT or
// http://opensource.org/licenses/MIT>, at your option. This file may not be
// copied, modified, or distributed except according to those terms.

use std::sync::atomic::AtomicUsize;

// Extension trait to add lock elision primitives to atomic types
pub trait AtomicElisionExt {
    type IntType;

    // Perform a compare_exchange and start a transaction
    fn elision_compare_exchange_acquire(
        &self,
        current: Self::IntType,
        new: Self::IntType,
    ) -> Result<Self::IntType, Self::IntType>;

    // Perform a fetch_sub and end a transaction
    fn elision_fetch_sub_release(&self, val: Self::IntType) -> Self::IntType;
}

// Indicates whether the target architecture supports lock elision
#[inline]
pub fn have_elision() -> bool {
    cfg!(all(
        feature = "hardware-lock-elision",
        not(miri),
        any(target_arch = "x86", target_arch = "x86_64"),
    ))
}

// This implementation is never actually called because it is guarded by
// have_elision().
#[cfg(not(all(
    feature = "hardware-lock-elision",
    not(miri),
    any(target_arch = "x86", target_arch = "x86_64")
)))]
impl AtomicElisionExt for AtomicUsize {
    type IntType = usize;

    #[inline]
    fn elision_compare_exchange_acquire(&self, _: usize, _: usize) -> Result<usize, usize> {
        unreachable!();
    }

    #[inline]
    fn elision_fetch_sub_release(&self, _: usize) -> usize {
        unreachable!();
    }
}

#[cfg(all(
    feature = "hardware-lock-elision",
    not(miri),
    any(target_arch = "x86", target_arch = "x86_64")
))]
impl AtomicElisionExt for AtomicUsize {
    type IntType = usize;

    #[inline]
    fn elision_compare_exchange_acquire(&self, current: usize, new: usize) -> Result<usize, usize> {
        unsafe {
            use core::arch::asm;
            let prev: usize;
            #[cfg(target_pointer_width = "32")]
            asm!(
                "xacquire",
                "lock",
                "cmpxchg [{:e}], {:e}",
                in(reg) self,
                in(reg) new,
                inout("eax") current => prev,
            );
            #[cfg(target_pointer_width = "64")]
            asm!(
                "xacquire",
                "lock",
                "cmpxchg [{}], {}",
                in(reg) self,
                in(reg) new,
                inout("rax") current => prev,
            );
            if prev == current {
                Ok(prev)
            } else {
                Err(prev)
            }
        }
    }

    #[inline]
    fn elision_fetch_sub_release(&self, val: usize) -> usize {
        unsafe {
            use core::arch::asm;
            let prev: usize;
            #[cfg(target_pointer_width = "32")]
            asm!(
                "xrelease",
                "lock",
                "xadd [{:e}], {:e}",
                in(reg) self,
                inout(reg) val.wrapping_neg() => prev,
            );
            #[cfg(target_pointer_width = "64")]
            asm!(
                "xrelease",
                "lock",
                "xadd [{}], {}",
                in(reg) self,
                inout(reg) val.wrapping_neg() => prev,
            );
            prev
        }
    }
}
