// Copyright 2016 Amanieu d'Antras
//
// Licensed under the Apache License, Version 2.0, <LICENSE-APACHE or
// http://apache.org/licenses/LICENSE-2.0> or the MIT license <LICENSE-MIT or
// http://opensource.org/licenses/MIT>, at your option. This file may not be
// copied, modified, or distributed except according to those terms.

use crate::raw_fair_mutex::RawFairMutex;

/// A mutual exclusive primitive that is always fair, useful for protecting shared data
///
/// This mutex will block threads waiting for the lock to become available. The
/// mutex can be statically initialized or created by the `new`
/// constructor. Each mutex has a type parameter which represents the data that
/// it is protecting. The data can only be accessed through the RAII guards
/// returned from `lock` and `try_lock`, which guarantees that the data is only
/// ever accessed when the mutex is locked.
///
/// The regular mutex provided by `parking_lot` uses eventual fairness
/// (after some time it will default to the fair algorithm), but eventual
/// fairness does not provide the same guarantees an always fair method would.
/// Fair mutexes are generally slower, but sometimes needed.
///
/// In a fair mutex the waiters form a queue, and the lock is always granted to
/// the next requester in the queue, in first-in first-out order. This ensures
/// that one thread cannot starve others by quickly re-acquiring the lock after
/// releasing it.
///
/// A fair mutex may not be interesting if threads have different priorities (this is known as
/// priority inversion).
///
/// # Differences from the standard library `Mutex`
///
/// - No poisoning, the lock is released normally on panic.
/// - Only requires 1 byte of space, whereas the standard library boxes the
///   `FairMutex` due to platform limitations.
/// - Can be statically constructed.
/// - Does not require any drop glue when dropped.
/// - Inline fast path for the uncontended case.
/// - Efficient handling of micro-contention using adaptive spinning.
/// - Allows raw locking & unlocking without a guard.
///
/// # Examples
///
/// ```
/// use parking_lot::FairMutex;
/// use std::sync::{Arc, mpsc::channel};
/// use std::thread;
///
/// const N: usize = 10;
///
/// // Spawn a few threads to increment a shared variable (non-atomically), and
/// // let the main thread know once all increments are done.
/// //
/// // Here we're using an Arc to share memory among threads, and the data inside
/// // the Arc is protected with a mutex.
/// let data = Arc::new(FairMutex::new(0));
///
/// let (tx, rx) = channel();
/// for _ in 0..10 {
///     let (data, tx) = (Arc::clone(&data), tx.clone());
///     thread::spawn(move || {
///         // The shared state can only be accessed once the lock is held.
///         // Our non-atomic increment is safe because we're the only thread
///         // which can access the shared state when the lock is held.
///         let mut data = data.lock();
///         *data += 1;
///         if *data == N {
///             tx.send(()).unwrap();
///         }
///         // the lock is unlocked here when `data` goes out of scope.
///     });
/// }
///
/// rx.recv().unwrap();
/// ```
pub type FairMutex<T> = lock_api::Mutex<RawFairMutex, T>;

/// Creates a new fair mutex in an unlocked state ready for use.
///
/// This allows creating a fair mutex in a constant context on stable Rust.
pub const fn const_fair_mutex<T>(val: T) -> FairMutex<T> {
    FairMutex::const_new(<RawFairMutex as lock_api::RawMutex>::INIT, val)
}

/// An RAII implementation of a "scoped lock" of a mutex. When this structure is
/// dropped (falls out of scope), the lock will be unlocked.
///
/// The data protected by the mutex can be accessed through this guard via its
/// `Deref` and `DerefMut` implementations.
pub type FairMutexGuard<'a, T> = lock_api::MutexGuard<'a, RawFairMutex, T>;

/// An RAII mutex guard returned by `FairMutexGuard::map`, which can point to a
/// subfield of the protected data.
///
/// The main difference between `MappedFairMutexGuard` and `FairMutexGuard` is that the
/// former doesn't support temporarily unlocking and re-locking, since that
/// could introduce soundness issues if the locked object is modified by another
/// thread.
pub type MappedFairMutexGuard<'a, T> = lock_api::MappedMutexGuard<'a, RawFairMutex, T>;

#[cfg(test)]
mod tests {
    use crate::FairMutex;
    use std::sync::atomic::{AtomicUsize, Ordering};
    use std::sync::mpsc::channel;
    use std::sync::Arc;
    use std::thread;

    #[cfg(feature = "serde")]
    use bincode::{deserialize, serialize};

    #[derive(Eq, PartialEq, Debug)]
    struct NonCopy(i32);

    #[test]
    fn smoke() {
        let m = FairMutex::new(());
        drop(m.lock());
        drop(m.lock());
    }

    #[test]
    fn lots_and_lots() {
        const J: u32 = 1000;
        const K: u32 = 3;

        let m = Arc::new(FairMutex::new(0));

        fn inc(m: &FairMutex<u32>) {
            for _ in 0..J {
                *m.lock() += 1;
            }
        }

        let (tx, rx) = channel();
        for _ in 0..K {
            let tx2 = tx.clone();
            let m2 = m.clone();
            thread::spawn(move || {
                inc(&m2);
                tx2.send(()).unwrap();
            });
            let tx2 = tx.clone();
            let m2 = m.clone();
            thread::spawn(move || {
                inc(&m2);
                tx2.send(()).unwrap();
            });
        }

        drop(tx);
        for _ in 0..2 * K {
            rx.recv().unwrap();
        }
        assert_eq!(*m.lock(), J * K * 2);
    }

    #[test]
    fn try_lock() {
        let m = FairMutex::new(());
        *m.try_lock().unwrap() = ();
    }

    #[test]
    fn test_into_inner() {
        let m = FairMutex::new(NonCopy(10));
        assert_eq!(m.into_inner(), NonCopy(10));
    }

    #[test]
    fn test_into_inner_drop() {
        struct Foo(Arc<AtomicUsize>);
        impl Drop for Foo {
            fn drop(&mut self) {
                self.0.fetch_add(1, Ordering::SeqCst);
            }
        }
        let num_drops = Arc::new(AtomicUsize::new(0));
        let m = FairMutex::new(Foo(num_drops.clone()));
        assert_eq!(num_drops.load(Ordering::SeqCst), 0);
        {
            let _inner = m.into_inner();
            assert_eq!(num_drops.load(Ordering::SeqCst), 0);
        }
        assert_eq!(num_drops.load(Ordering::SeqCst), 1);
    }

    #[test]
    fn test_get_mut() {
        let mut m = FairMutex::new(NonCopy(10));
        *m.get_mut() = NonCopy(20);
        assert_eq!(m.into_inner(), NonCopy(20));
    }

    #[test]
    fn test_mutex_arc_nested() {
        // Tests nested mutexes and access
        // to underlying data.
        let arc = Arc::new(FairMutex::new(1));
        let arc2 = Arc::new(FairMutex::new(arc));
        let (tx, rx) = channel();
        let _t = thread::spawn(move || {
            let lock = arc2.lock();
            let lock2 = lock.lock();
            assert_eq!(*lock2, 1);
            tx.send(()).unwrap();
        });
        rx.recv().unwrap();
    }

    #[test]
    fn test_mutex_arc_access_in_unwind() {
        let arc = Arc::new(FairMutex::new(1));
        let arc2 = arc.clone();
        let _ = thread::spawn(move || {
            struct Unwinder {
                i: Arc<FairMutex<i32>>,
            }
            impl Drop for Unwinder {
                fn drop(&mut self) {
                    *self.i.lock() += 1;
                }
            }
            let _u = Unwinder { i: arc2 };
            panic!();
        })
        .join();
        let lock = arc.lock();
        assert_eq!(*lock, 2);
    }

    #[test]
    fn test_mutex_unsized() {
        let mutex: &FairMutex<[i32]> = &FairMutex::new([1, 2, 3]);
        {
            let b = &mut *mutex.lock();
            b[0] = 4;
            b[2] = 5;
        }
        let comp: &[i32] = &[4, 2, 5];
        assert_eq!(&*mutex.lock(), comp);
    }

    #[test]
    fn test_mutexguard_sync() {
        fn sync<T: Sync>(_: T) {}

        let mutex = FairMutex::new(());
        sync(mutex.lock());
    }

    #[test]
    fn test_mutex_debug() {
        let mutex = FairMutex::new(vec![0u8, 10]);

        assert_eq!(format!("{:?}", mutex), "Mutex { data: [0, 10] }");
        let _lock = mutex.lock();
        assert_eq!(format!("{:?}", mutex), "Mutex { data: <locked> }");
    }

    #[cfg(feature = "serde")]
    #[test]
    fn test_serde() {
        let contents: Vec<u8> = vec![0, 1, 2];
        let mutex = FairMutex::new(contents.clone());

        let serialized = serialize(&mutex).unwrap();
        let deserialized: FairMutex<Vec<u8>> = deserialize(&serialized).unwrap();

        assert_eq!(*(mutex.lock()), *(deserialized.lock()));
        assert_eq!(contents, *(deserialized.lock()));
    }
}
