// Copyright 2016 Amanieu d'Antras
//
// Licensed under the Apache License, Version 2.0, <LICENSE-APACHE or
// http://apache.org/licenses/LICENSE-2.0> or the MIT license <LICENSE-MIT or
// http://opensource.org/licenses/MIT>, at your option. This file may not be
// copied, modified, or distributed except according to those terms.

use crate::{deadlock, util};
use core::{
    sync::atomic::{AtomicU8, Ordering},
    time::Duration,
};
use lock_api::RawMutex as RawMutex_;
use parking_lot_core::{self, ParkResult, SpinWait, UnparkResult, UnparkToken, DEFAULT_PARK_TOKEN};
use std::time::Instant;

// UnparkToken used to indicate that that the target thread should attempt to
// lock the mutex again as soon as it is unparked.
pub(crate) const TOKEN_NORMAL: UnparkToken = UnparkToken(0);

// UnparkToken used to indicate that the mutex is being handed off to the target
// thread directly without unlocking it.
pub(crate) const TOKEN_HANDOFF: UnparkToken = UnparkToken(1);

/// This bit is set in the `state` of a `RawMutex` when that mutex is locked by some thread.
const LOCKED_BIT: u8 = 0b01;
/// This bit is set in the `state` of a `RawMutex` just before parking a thread. A thread is being
/// parked if it wants to lock the mutex, but it is currently being held by some other thread.
const PARKED_BIT: u8 = 0b10;

/// Raw mutex type backed by the parking lot.
pub struct RawMutex {
    /// This atomic integer holds the current state of the mutex instance. Only the two lowest bits
    /// are used. See `LOCKED_BIT` and `PARKED_BIT` for the bitmask for these bits.
    ///
    /// # State table:
    ///
    /// PARKED_BIT | LOCKED_BIT | Description
    ///     0      |     0      | The mutex is not locked, nor is anyone waiting for it.
    /// -----------+------------+------------------------------------------------------------------
    ///     0      |     1      | The mutex is locked by exactly one thread. No other thread is
    ///            |            | waiting for it.
    /// -----------+------------+------------------------------------------------------------------
    ///     1      |     0      | The mutex is not locked. One or more thread is parked or about to
    ///            |            | park. At least one of the parked threads are just about to be
    ///            |            | unparked, or a thread heading for parking might abort the park.
    /// -----------+------------+------------------------------------------------------------------
    ///     1      |     1      | The mutex is locked by exactly one thread. One or more thread is
    ///            |            | parked or about to park, waiting for the lock to become available.
    ///            |            | In this state, PARKED_BIT is only ever cleared when a bucket lock
    ///            |            | is held (i.e. in a parking_lot_core callback). This ensures that
    ///            |            | we never end up in a situation where there are parked threads but
    ///            |            | PARKED_BIT is not set (which would result in those threads
    ///            |            | potentially never getting woken up).
    state: AtomicU8,
}

unsafe impl lock_api::RawMutex for RawMutex {
    const INIT: RawMutex = RawMutex {
        state: AtomicU8::new(0),
    };

    type GuardMarker = crate::GuardMarker;

    #[inline]
    fn lock(&self) {
        if let Some(h) = crate::sim::hooks() {
            (h.acquire)(self as *const _ as usize, crate::sim::Kind::Mutex, &mut || {
                lock_api::RawMutex::try_lock(self)
            });
            return;
        }
        if self
            .state
            .compare_exchange_weak(0, LOCKED_BIT, Ordering::Acquire, Ordering::Relaxed)
            .is_err()
        {
            self.lock_slow(None);
        }
        unsafe { deadlock::acquire_resource(self as *const _ as usize) };
    }

    #[inline]
    fn try_lock(&self) -> bool {
        let mut state = self.state.load(Ordering::Relaxed);
        loop {
            if state & LOCKED_BIT != 0 {
                return false;
            }
            match self.state.compare_exchange_weak(
                state,
                state | LOCKED_BIT,
                Ordering::Acquire,
                Ordering::Relaxed,
            ) {
                Ok(_) => {
                    unsafe { deadlock::acquire_resource(self as *const _ as usize) };
                    return true;
                }
                Err(x) => state = x,
            }
        }
    }

    #[inline]
    unsafe fn unlock(&self) {
        deadlock::release_resource(self as *const _ as usize);
        if self
            .state
            .compare_exchange(LOCKED_BIT, 0, Ordering::Release, Ordering::Relaxed)
            .is_err()
        {
            self.unlock_slow(false);
        }
        if let Some(h) = crate::sim::hooks() {
            (h.released)(self as *const _ as usize, crate::sim::Kind::Mutex);
        }
    }

    #[inline]
    fn is_locked(&self) -> bool {
        let state = self.state.load(Ordering::Relaxed);
        state & LOCKED_BIT != 0
    }
}

unsafe impl lock_api::RawMutexFair for RawMutex {
    #[inline]
    unsafe fn unlock_fair(&self) {
        deadlock::release_resource(self as *const _ as usize);
        if self
            .state
            .compare_exchange(LOCKED_BIT, 0, Ordering::Release, Ordering::Relaxed)
            .is_ok()
        {
            return;
        }
        self.unlock_slow(true);
    }

    #[inline]
    unsafe fn bump(&self) {
        if self.state.load(Ordering::Relaxed) & PARKED_BIT != 0 {
            self.bump_slow();
        }
    }
}

unsafe impl lock_api::RawMutexTimed for RawMutex {
    type Duration = Duration;
    type Instant = Instant;

    #[inline]
    fn try_lock_until(&self, timeout: Instant) -> bool {
        let result = if self
            .state
            .compare_exchange_weak(0, LOCKED_BIT, Ordering::Acquire, Ordering::Relaxed)
            .is_ok()
        {
            true
        } else {
            self.lock_slow(Some(timeout))
        };
        if result {
            unsafe { deadlock::acquire_resource(self as *const _ as usize) };
        }
        result
    }

    #[inline]
    fn try_lock_for(&self, timeout: Duration) -> bool {
        let result = if self
            .state
            .compare_exchange_weak(0, LOCKED_BIT, Ordering::Acquire, Ordering::Relaxed)
            .is_ok()
        {
            true
        } else {
            self.lock_slow(util::to_deadline(timeout))
        };
        if result {
            unsafe { deadlock::acquire_resource(self as *const _ as usize) };
        }
        result
    }
}

impl RawMutex {
    // Used by Condvar when requeuing threads to us, must be called while
    // holding the queue lock.
    #[inline]
    pub(crate) fn mark_parked_if_locked(&self) -> bool {
        let mut state = self.state.load(Ordering::Relaxed);
        loop {
            if state & LOCKED_BIT == 0 {
                return false;
            }
            match self.state.compare_exchange_weak(
                state,
                state | PARKED_BIT,
                Ordering::Relaxed,
                Ordering::Relaxed,
            ) {
                Ok(_) => return true,
                Err(x) => state = x,
            }
        }
    }

    // Used by Condvar when requeuing threads to us, must be called while
    // holding the queue lock.
    #[inline]
    pub(crate) fn mark_parked(&self) {
        self.state.fetch_or(PARKED_BIT, Ordering::Relaxed);
    }

    #[cold]
    fn lock_slow(&self, timeout: Option<Instant>) -> bool {
        let mut spinwait = SpinWait::new();
        let mut state = self.state.load(Ordering::Relaxed);
        loop {
            // Grab the lock if it isn't locked, even if there is a queue on it
            if state & LOCKED_BIT == 0 {
                match self.state.compare_exchange_weak(
                    state,
                    state | LOCKED_BIT,
                    Ordering::Acquire,
                    Ordering::Relaxed,
                ) {
                    Ok(_) => return true,
                    Err(x) => state = x,
                }
                continue;
            }

            // If there is no queue, try spinning a few times
            if state & PARKED_BIT == 0 && spinwait.spin() {
                state = self.state.load(Ordering::Relaxed);
                continue;
            }

            // Set the parked bit
            if state & PARKED_BIT == 0 {
                if let Err(x) = self.state.compare_exchange_weak(
                    state,
                    state | PARKED_BIT,
                    Ordering::Relaxed,
                    Ordering::Relaxed,
                ) {
                    state = x;
                    continue;
                }
            }

            // Park our thread until we are woken up by an unlock
            let addr = self as *const _ as usize;
            let validate = || self.state.load(Ordering::Relaxed) == LOCKED_BIT | PARKED_BIT;
            let before_sleep = || {};
            let timed_out = |_, was_last_thread| {
                // Clear the parked bit if we were the last parked thread
                if was_last_thread {
                    self.state.fetch_and(!PARKED_BIT, Ordering::Relaxed);
                }
            };
            // SAFETY:
            //   * `addr` is an address we control.
            //   * `validate`/`timed_out` does not panic or call into any function of `parking_lot`.
            //   * `before_sleep` does not call `park`, nor does it panic.
            match unsafe {
                parking_lot_core::park(
                    addr,
                    validate,
                    before_sleep,
                    timed_out,
                    DEFAULT_PARK_TOKEN,
                    timeout,
                )
            } {
                // The thread that unparked us passed the lock on to us
                // directly without unlocking it.
                ParkResult::Unparked(TOKEN_HANDOFF) => return true,

                // We were unparked normally, try acquiring the lock again
                ParkResult::Unparked(_) => (),

                // The validation function failed, try locking again
                ParkResult::Invalid => (),

                // Timeout expired
                ParkResult::TimedOut => return false,
            }

            // Loop back and try locking again
            spinwait.reset();
            state = self.state.load(Ordering::Relaxed);
        }
    }

    #[cold]
    fn unlock_slow(&self, force_fair: bool) {
        // Unpark one thread and leave the parked bit set if there might
        // still be parked threads on this address.
        let addr = self as *const _ as usize;
        let callback = |result: UnparkResult| {
            // If we are using a fair unlock then we should keep the
            // mutex locked and hand it off to the unparked thread.
            if result.unparked_threads != 0 && (force_fair || result.be_fair) {
                // Clear the parked bit if there are no more parked
                // threads.
                if !result.have_more_threads {
                    self.state.store(LOCKED_BIT, Ordering::Relaxed);
                }
                return TOKEN_HANDOFF;
            }

            // Clear the locked bit, and the parked bit as well if there
            // are no more parked threads.
            if result.have_more_threads {
                self.state.store(PARKED_BIT, Ordering::Release);
            } else {
                self.state.store(0, Ordering::Release);
            }
            TOKEN_NORMAL
        };
        // SAFETY:
        //   * `addr` is an address we control.
        //   * `callback` does not panic or call into any function of `parking_lot`.
        unsafe {
            parking_lot_core::unpark_one(addr, callback);
        }
    }

    #[cold]
    fn bump_slow(&self) {
        unsafe { deadlock::release_resource(self as *const _ as usize) };
        self.unlock_slow(true);
        self.lock();
    }
}
