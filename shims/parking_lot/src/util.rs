// Copyright 2016 Amanieu d'Antras
//
// Licensed under the Apache License, Version 2.0, <LICENSE-APACHE or
// http://apache.org/licenses/LICENSE-2.0> or the MIT license <LICENSE-MIT or
// http://opensource.org/licenses/MIT>, at your option. This file may not be
// copied, modified, or distributed except according to those terms.

use std::time::{Duration, Instant};

// Option::unchecked_unwrap
pub trait UncheckedOptionExt<T> {
    unsafe fn unchecked_unwrap(self) -> T;
}

impl<T> UncheckedOptionExt<T> for Option<T> {
    #[inline]
    unsafe fn unchecked_unwrap(self) -> T {
        match self {
            Some(x) => x,
            None => unreachable(),
        }
    }
}

// hint::unreachable_unchecked() in release mode
#[inline]
unsafe fn unreachable() -> ! {
    if cfg!(debug_assertions) {
        unreachable!();
    } else {
        core::hint::unreachable_unchecked()
    }
}

#[inline]
pub fn to_deadline(timeout: Duration) -> Option<Instant> {
    Instant::now().checked_add(timeout)
}
