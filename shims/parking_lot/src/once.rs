// Copyright 2016 Amanieu d'Antras
//
// Licensed under the Apache License, Version 2.0, <LICENSE-APACHE or
// http://apache.org/licenses/LICENSE-2.0> or the MIT license <LICENSE-MIT or
// http://opensource.org/licenses/MIT>, at your option. This file may not be
// copied, modified, or distributed except according to those terms.

use crate::util::UncheckedOptionExt;
use core::{
    fmt, mem,
    sync::atomic::{fence, AtomicU8, Ordering},
};
use parking_lot_core::{self, SpinWait, DEFAULT_PARK_TOKEN, DEFAULT_UNPARK_TOKEN};

const DONE_BIT: u8 = 1;
const POISON_BIT: u8 = 2;
const LOCKED_BIT: u8 = 4;
const PARKED_BIT: u8 = 8;

/// Current state of a `Once`.
#[derive(Copy, Clone, Eq, PartialEq, Debug)]
pub enum OnceState {
    /// A closure has not been executed yet
    New,

    /// A closure was executed but panicked.
    Poisoned,

    /// A thread is currently executing a closure.
    InProgress,

    /// A closure has completed successfully.
    Done,
}

impl OnceState {
    /// Returns whether the associated `Once` has been poisoned.
    ///
    /// Once an initialization routine for a `Once` has panicked it will forever
    /// indicate to future forced initialization routines that it is poisoned.
    #[inline]
    pub fn poisoned(self) -> bool {
        matches!(self, OnceState::Poisoned)
    }

    /// Returns whether the associated `Once` has successfully executed a
    /// closure.
    #[inline]
    pub fn done(self) -> bool {
        matches!(self, OnceState::Done)
    }
}

/// A synchronization primitive which can be used to run a one-time
/// initialization. Useful for one-time initialization for globals, FFI or
/// related functionality.
///
/// # Differences from the standard library `Once`
///
/// - Only requires 1 byte of space, instead of 1 word.
/// - Not required to be `'static`.
/// - Relaxed memory barriers in the fast path, which can significantly improve
///   performance on some architectures.
/// - Efficient handling of micro-contention using adaptive spinning.
///
/// # Examples
///
/// ```
/// use parking_lot::Once;
///
/// static START: Once = Once::new();
///
/// START.call_once(|| {
///     // run initialization here
/// });
/// ```
pub struct Once(AtomicU8);

impl Once {
    /// Creates a new `Once` value.
    #[inline]
    pub const fn new() -> Once {
        Once(AtomicU8::new(0))
    }

    /// Returns the current state of this `Once`.
    #[inline]
    pub fn state(&self) -> OnceState {
        let state = self.0.load(Ordering::Acquire);
        if state & DONE_BIT != 0 {
            OnceState::Done
        } else if state & LOCKED_BIT != 0 {
            OnceState::InProgress
        } else if state & POISON_BIT != 0 {
            OnceState::Poisoned
        } else {
            OnceState::New
        }
    }

    /// Performs an initialization routine once and only once. The given closure
    /// will be executed if this is the first time `call_once` has been called,
    /// and otherwise the routine will *not* be invoked.
    ///
    /// This method will block the calling thread if another initialization
    /// routine is currently running.
    ///
    /// When this function returns, it is guaranteed that some initialization
    /// has run and completed (it may not be the closure specified). It is also
    /// guaranteed that any memory writes performed by the executed closure can
    /// be reliably observed by other threads at this point (there is a
    /// happens-before relation between the closure and code executing after the
    /// return).
    ///
    /// # Examples
    ///
    /// ```
    /// use parking_lot::Once;
    ///
    /// static mut VAL: usize = 0;
    /// static INIT: Once = Once::new();
    ///
    /// // Accessing a `static mut` is unsafe much of the time, but if we do so
    /// // in a synchronized fashion (e.g. write once or read all) then we're
    /// // good to go!
    /// //
    /// // This function will only call `expensive_computation` once, and will
    /// // otherwise always return the value returned from the first invocation.
    /// fn get_cached_val() -> usize {
    ///     unsafe {
    ///         INIT.call_once(|| {
    ///             VAL = expensive_computation();
    ///         });
    ///         VAL
    ///     }
    /// }
    ///
    /// fn expensive_computation() -> usize {
    ///     // ...
    /// # 2
    /// }
    /// ```
    ///
    /// # Panics
    ///
    /// The closure `f` will only be executed once if this is called
    /// concurrently amongst many threads. If that closure panics, however, then
    /// it will *poison* this `Once` instance, causing all future invocations of
    /// `call_once` to also panic.
    #[inline]
    pub fn call_once<F>(&self, f: F)
    where
        F: FnOnce(),
    {
        if self.0.load(Ordering::Acquire) == DONE_BIT {
            return;
        }

        let mut f = Some(f);
        self.call_once_slow(false, &mut |_| unsafe { f.take().unchecked_unwrap()() });
    }

    /// Performs the same function as `call_once` except ignores poisoning.
    ///
    /// If this `Once` has been poisoned (some initialization panicked) then
    /// this function will continue to attempt to call initialization functions
    /// until one of them doesn't panic.
    ///
    /// The closure `f` is yielded a structure which can be used to query the
    /// state of this `Once` (whether initialization has previously panicked or
    /// not).
    #[inline]
    pub fn call_once_force<F>(&self, f: F)
    where
        F: FnOnce(OnceState),
    {
        if self.0.load(Ordering::Acquire) == DONE_BIT {
            return;
        }

        let mut f = Some(f);
        self.call_once_slow(true, &mut |state| unsafe {
            f.take().unchecked_unwrap()(state)
        });
    }

    // This is a non-generic function to reduce the monomorphization cost of
    // using `call_once` (this isn't exactly a trivial or small implementation).
    //
    // Additionally, this is tagged with `#[cold]` as it should indeed be cold
    // and it helps let LLVM know that calls to this function should be off the
    // fast path. Essentially, this should help generate more straight line code
    // in LLVM.
    //
    // Finally, this takes an `FnMut` instead of a `FnOnce` because there's
    // currently no way to take an `FnOnce` and call it via virtual dispatch
    // without some allocation overhead.
    #[cold]
    fn call_once_slow(&self, ignore_poison: bool, f: &mut dyn FnMut(OnceState)) {
        let mut spinwait = SpinWait::new();
        let mut state = self.0.load(Ordering::Relaxed);
        loop {
            // If another thread called the closure, we're done
            if state & DONE_BIT != 0 {
                // An acquire fence is needed here since we didn't load the
                // state with Ordering::Acquire.
                fence(Ordering::Acquire);
                return;
            }

            // If the state has been poisoned and we aren't forcing, then panic
            if state & POISON_BIT != 0 && !ignore_poison {
                // Need the fence here as well for the same reason
                fence(Ordering::Acquire);
                panic!("Once instance has previously been poisoned");
            }

            // Grab the lock if it isn't locked, even if there is a queue on it.
            // We also clear the poison bit since we are going to try running
            // the closure again.
            if state & LOCKED_BIT == 0 {
                match self.0.compare_exchange_weak(
                    state,
                    (state | LOCKED_BIT) & !POISON_BIT,
                    Ordering::Acquire,
                    Ordering::Relaxed,
                ) {
                    Ok(_) => break,
                    Err(x) => state = x,
                }
                continue;
            }

            // If there is no queue, try spinning a few times
            if state & PARKED_BIT == 0 && spinwait.spin() {
                state = self.0.load(Ordering::Relaxed);
                continue;
            }

            // Set the parked bit
            if state & PARKED_BIT == 0 {
                if let Err(x) = self.0.compare_exchange_weak(
                    state,
                    state | PARKED_BIT,
                    Ordering::Relaxed,
                    Ordering::Relaxed,
                ) {
                    state = x;
                    continue;
                }
            }

            // Park our thread until we are woken up by the thread that owns the
            // lock.
            let addr = self as *const _ as usize;
            let validate = || self.0.load(Ordering::Relaxed) == LOCKED_BIT | PARKED_BIT;
            let before_sleep = || {};
            let timed_out = |_, _| unreachable!();
            unsafe {
                parking_lot_core::park(
                    addr,
                    validate,
                    before_sleep,
                    timed_out,
                    DEFAULT_PARK_TOKEN,
                    None,
                );
            }

            // Loop back and check if the done bit was set
            spinwait.reset();
            state = self.0.load(Ordering::Relaxed);
        }

        struct PanicGuard<'a>(&'a Once);
        impl<'a> Drop for PanicGuard<'a> {
            fn drop(&mut self) {
                // Mark the state as poisoned, unlock it and unpark all threads.
                let once = self.0;
                let state = once.0.swap(POISON_BIT, Ordering::Release);
                if state & PARKED_BIT != 0 {
                    let addr = once as *const _ as usize;
                    unsafe {
                        parking_lot_core::unpark_all(addr, DEFAULT_UNPARK_TOKEN);
                    }
                }
            }
        }

        // At this point we have the lock, so run the closure. Make sure we
        // properly clean up if the closure panicks.
        let guard = PanicGuard(self);
        let once_state = if state & POISON_BIT != 0 {
            OnceState::Poisoned
        } else {
            OnceState::New
        };
        f(once_state);
        mem::forget(guard);

        // Now unlock the state, set the done bit and unpark all threads
        let state = self.0.swap(DONE_BIT, Ordering::Release);
        if state & PARKED_BIT != 0 {
            let addr = self as *const _ as usize;
            unsafe {
                parking_lot_core::unpark_all(addr, DEFAULT_UNPARK_TOKEN);
            }
        }
    }
}

impl Default for Once {
    #[inline]
    fn default() -> Once {
        Once::new()
    }
}

impl fmt::Debug for Once {
    fn fmt(&self, f: &mut fmt::Formatter<'_>) -> fmt::Result {
        f.debug_struct("Once")
            .field("state", &self.state())
            .finish()
    }
}

#[cfg(test)]
mod tests {
    use crate::Once;
    use std::panic;
    use std::sync::mpsc::channel;
    use std::thread;

    #[test]
    fn smoke_once() {
        static O: Once = Once::new();
        let mut a = 0;
        O.call_once(|| a += 1);
        assert_eq!(a, 1);
        O.call_once(|| a += 1);
        assert_eq!(a, 1);
    }

    #[test]
    fn stampede_once() {
        static O: Once = Once::new();
        static mut RUN: bool = false;

        let (tx, rx) = channel();
        for _ in 0..10 {
            let tx = tx.clone();
            thread::spawn(move || {
                for _ in 0..4 {
                    thread::yield_now()
                }
                unsafe {
                    O.call_once(|| {
                        assert!(!RUN);
                        RUN = true;
                    });
                    assert!(RUN);
                }
                tx.send(()).unwrap();
            });
        }

        unsafe {
            O.call_once(|| {
                assert!(!RUN);
                RUN = true;
            });
            assert!(RUN);
        }

        for _ in 0..10 {
            rx.recv().unwrap();
        }
    }

    #[test]
    fn poison_bad() {
        static O: Once = Once::new();

        // poison the once
        let t = panic::catch_unwind(|| {
            O.call_once(|| panic!());
        });
        assert!(t.is_err());

        // poisoning propagates
        let t = panic::catch_unwind(|| {
            O.call_once(|| {});
        });
        assert!(t.is_err());

        // we can subvert poisoning, however
        let mut called = false;
        O.call_once_force(|p| {
            called = true;
            assert!(p.poisoned())
        });
        assert!(called);

        // once any success happens, we stop propagating the poison
        O.call_once(|| {});
    }

    #[test]
    fn wait_for_force_to_finish() {
        static O: Once = Once::new();

        // poison the once
        let t = panic::catch_unwind(|| {
            O.call_once(|| panic!());
        });
        assert!(t.is_err());

        // make sure someone's waiting inside the once via a force
        let (tx1, rx1) = channel();
        let (tx2, rx2) = channel();
        let t1 = thread::spawn(move || {
            O.call_once_force(|p| {
                assert!(p.poisoned());
                tx1.send(()).unwrap();
                rx2.recv().unwrap();
            });
        });

        rx1.recv().unwrap();

        // put another waiter on the once
        let t2 = thread::spawn(|| {
            let mut called = false;
            O.call_once(|| {
                called = true;
            });
            assert!(!called);
        });

        tx2.send(()).unwrap();

        assert!(t1.join().is_ok());
        assert!(t2.join().is_ok());
    }

    #[test]
    fn test_once_debug() {
        static O: Once = Once::new();

        assert_eq!(format!("{:?}", O), "Once { state: New }");
    }
}
