#!/usr/bin/env python3
"""Development aid: append replay files of a calibration run (VERIF_CALIBRATE=1) to
known_findings.jsonl as `open` entries. Never used by a check. Each entry must have been
looked at: usage  tools/list_findings.py '<what text>' replays/<file>.json ...
Signatures that say the answer differs from the pinned tree's are refused."""
import json, sys
what = sys.argv[1]
have = {json.loads(l)["signature"] for l in open("/verif/known_findings.jsonl") if l.strip()}
out = open("/verif/known_findings.jsonl", "a")
for f in sys.argv[2:]:
    d = json.load(open(f))
    sig = d["signature"]
    if sig in have:
        continue
    if "differs-from-pinned-tree" in sig:
        print("REFUSED (not the pinned tree's behaviour):", sig); continue
    rep = d["replay"]
    w = {"engine": rep.get("engine"), "config": rep.get("config"), "ops": rep.get("ops"), "note": d["detail"][:400]}
    out.write(json.dumps({"property": d["property"], "status": "open", "signature": sig, "what": what, "witness": w}) + "\n")
    have.add(sig)
    print("listed:", sig)
