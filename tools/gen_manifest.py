#!/usr/bin/env python3
"""Generates /verif/MANIFEST.json from the table below (single source of truth)."""
import json, subprocess, sys

HOOK_COMMITS = []  # filled from /repo's git log: commits whose subject starts with "verif-hook:"
try:
    out = subprocess.run(["git", "-C", "/repo", "log", "--format=%h %s"], capture_output=True, text=True).stdout
    HOOK_COMMITS = [l.split()[0] for l in out.splitlines() if l.split(" ", 1)[1].startswith("verif-hook:")][::-1]
except Exception:
    pass

CHECKS = {
    "C03": dict(
        engine="TXM",
        technique="deterministic simulation: seeded histories of begin/write/commit/abort/gc over the real TransactionManager, judged after every commit by a first-committer-wins reference model (spec clock independent of epochs and gc); delta-debugged replay",
        category="exploration",
        text="Seeded search over manager-level histories (60k quick / 4M thorough) with the simulator owning the total order of all calls, gc at every point and long-running pinned transactions. Both directions are judged after every commit: a commit with an overlapping committed writer must be refused with WriteConflict; any other commit must be accepted, whatever gc did. Sampling, not proof.",
        design_ref="DESIGN.md §3 C03",
        note="Trusted: the 10-line reference rule (RefTxm). Assumes writes are the ones registered through record_write. Multi-threaded commits are explored separately by the shuttle layer (C20 engine).",
    ),
    "C04": dict(
        engine="TXM",
        technique="deterministic simulation: seeded Serializable histories (write-skew, lost-update, read-only-anomaly shapes seeded) over the real TransactionManager; per-commit rule oracle plus dependency-graph (ww/wr/rw) acyclicity and commit-order check over the recorded history",
        category="exploration",
        text="Seeded search over histories of begin(Serializable|mixed)/read/write/commit/abort/gc; after every commit the outcome is compared with the rule, and at the end the direct serialization graph of the committed transactions is built from the recorded reads and writes and must be acyclic with no edge against commit order out of a writing transaction.",
        design_ref="DESIGN.md §3 C04",
        note="Silent (either outcome accepted) for a read-only Serializable transaction with an overwritten read and for the rw rule in mixed-level histories; see evidence.unchecked_cases.",
    ),
}

NOT_APPLICABLE = {
    "C08": "pure function of (graph, query text): no schedule, clock, I/O, fault or shared state in the statement or its quantifier; differential/reference-interpreter testing is the fitting family, not simulation",
    "C09": "pure function of (graph, statistics state, query, optimizer switches); stale statistics are an input, not a schedule",
    "C11": "algebraic identities between results of pure queries; chunk-boundary behaviour is deterministic in the input",
    "C12": "quantifies over input strings only (fuzzing); a watchdog is not a simulated clock",
    "C16": "laws of Eq/Hash/Ord and codecs of Value: pure relations on values",
    "C19": "graph algorithms on a fixed input graph: pure functions of their input",
}
PENDING = {}
for pid in ["C01","C02","C05","C06","C07","C10","C13","C14","C15","C17","C18","C20"]:
    if pid not in CHECKS:
        PENDING[pid] = "engine for this property is designed (DESIGN.md) but not built/committed yet; not claimed until its check runs clean on the unchanged tree"

manifest = {
    "version": 1,
    "setup_cmd": "./run setup",
    "hooks": {
        "guard": "--cfg grafeo_verif",
        "enable": "RUSTFLAGS='--cfg grafeo_verif' via /verif/sim/.cargo/config.toml; the simulator crate /verif/sim depends on /repo/crates/* by path and patches parking_lot with /verif/shims/parking_lot",
        "baseline_off_cmd": "cd /repo && cargo nextest run --workspace --no-fail-fast --tool-config-file pb:/w/lib/nextest.toml --profile pb --test-threads 8 --offline",
        "source_commits": HOOK_COMMITS,
        "add_only": True,
    },
    "engines": [
        {"name": "TXM", "path": "sim/src/eng_txm.rs", "serves_properties": ["C03", "C04"], "kind_free_text": "single-threaded history simulator over TransactionManager with a reference model"},
    ],
    "checks": [],
    "notes": "Deterministic simulation with fault injection. One binary (sim/), one PRNG stream per run derived from VERIF_SEED (default 1). Exit 2 = harness error. Known findings: known_findings.jsonl.",
    "not_applicable": [],
}
for pid, c in sorted(CHECKS.items()):
    manifest["checks"].append({
        "property_id": pid,
        "quick_cmd": f"./run {pid} quick",
        "thorough_cmd": f"./run {pid} thorough",
        "evidence_file": f"/verif/evidence/{pid}.json",
        "replay_cmd_template": "./run replay {path}",
        "engine": c["engine"],
        "level_claimed": {"category": c["category"], "text": c["text"], "design_ref": c["design_ref"]},
        "level_note": c["note"],
        "technique": c["technique"],
    })
for pid, r in sorted({**NOT_APPLICABLE, **PENDING}.items()):
    manifest["not_applicable"].append({"property_id": pid, "reason": r})
json.dump(manifest, open("/verif/MANIFEST.json", "w"), indent=1)
print("wrote MANIFEST.json:", len(manifest["checks"]), "checks,", len(manifest["not_applicable"]), "not claimed")
