#!/usr/bin/env python3
"""Generates /verif/MANIFEST.json from the table below (single source of truth)."""
import json, subprocess, sys

HOOK_COMMITS = []  # filled from /repo's git log: commits whose subject starts with "verif-hook:"
try:
    out = subprocess.run(["git", "-C", "/repo", "log", "--format=%h %s"], capture_output=True, text=True).stdout
    HOOK_COMMITS = [l.split()[0] for l in out.splitlines() if l.split(" ", 1)[1].startswith("verif-hook:")][::-1]
except Exception:
    pass

CHECKS = {
    "C03": dict(
        engine="TXM",
        technique="deterministic simulation: seeded histories of begin/write/commit/abort/gc over the real TransactionManager, judged after every commit by a first-committer-wins reference model (spec clock independent of epochs and gc); delta-debugged replay",
        category="exploration",
        text="Seeded search over manager-level histories (300k quick / 2M thorough) with the simulator owning the total order of all calls, gc at every point and long-running pinned transactions. Both directions are judged after every commit: a commit with an overlapping committed writer must be refused with WriteConflict; any other commit must be accepted, whatever gc did. Sampling, not proof.",
        design_ref="DESIGN.md §3 C03",
        note="Trusted: the 10-line reference rule (RefTxm). Assumes writes are the ones registered through record_write. Multi-threaded commits are explored separately by the shuttle layer (C20 engine).",
    ),
    "C04": dict(
        engine="TXM",
        technique="deterministic simulation: seeded Serializable histories (write-skew, lost-update, read-only-anomaly shapes seeded) over the real TransactionManager; per-commit rule oracle plus dependency-graph (ww/wr/rw) acyclicity and commit-order check over the recorded history",
        category="exploration",
        text="Seeded search over histories of begin(Serializable|mixed)/read/write/commit/abort/gc; after every commit the outcome is compared with the rule, and at the end the direct serialization graph of the committed transactions is built from the recorded reads and writes and must be acyclic with no edge against commit order out of a writing transaction.",
        design_ref="DESIGN.md §3 C04",
        note="Silent (either outcome accepted) for a read-only Serializable transaction with an overwritten read and for the rw rule in mixed-level histories; see evidence.unchecked_cases.",
    ),
}

CHECKS["C14"] = dict(
    engine="STORE",
    technique="deterministic simulation: seeded mutation histories over the real LpgStore with per-run operation subsets and adjacency-threshold-crossing hub runs; after every step every access path is compared with a brute-force reference graph; delta-debugged replay",
    category="exploration",
    text="Seeded search over histories of every LpgStore mutator (100k quick / 2M thorough), with and without backward adjacency; after each step label lookups (index and iterator), adjacency in both directions, degrees, indexed vs scanned property lookups, single and batch property getters for nodes and edges (full, per key, selective), range lookups, one-directional zone-map pruning for node and edge properties, the name dictionaries, counts, enumeration and refreshed statistics are compared with a map-based reference graph.",
    design_ref="DESIGN.md §3 C14",
    note="Trusted: RefGraph (ordered maps, brute force). Writes are addressed to live entities; nodes with edges are deleted via delete_node_edges+delete_node as the store documents. Cross-type int/float ranges and ensure_statistics_fresh are not judged.",
)
CHECKS["C05"] = dict(
    engine="DISK",
    technique="deterministic simulation: persistent GrafeoDB on a tapped tmpfs directory with simulated clock; seeded histories of all mutating API calls, checkpoints, rotations, syncs, clock jumps and clean close/reopen cycles under per-run durability mode, log-size limit and BufWriter capacity; reopened dump compared with a reference graph",
    category="fault_enumeration",
    text="Seeded search (40k quick / 1M thorough) over operation sequences with 1..n clean close/reopen cycles, all four durability modes, log-size limits from 64 B (rotation after every record) to the default, BufWriter capacities from 1 B; the dump of the reopened database must equal the reference model after all operations and new identifiers must not collide with live ones.",
    design_ref="DESIGN.md §3 C05",
    note="One run in 30 writes string values of 5 kB / 70 kB / 1.1 MB (log records far beyond any buffer or size limit). No faults in this check (C06 injects them). AsyncWalManager and the AdaptiveFlusher thread are not run (not reachable from GrafeoDB); the flusher is modelled as generated wal.sync() calls.",
)
CHECKS["C06"] = dict(
    engine="DISK",
    technique="deterministic simulation with fault injection: crash images computed from the recorded disk-event log of the WAL (every crash point incl. inside close/checkpoint/rotation; un-synced tails kept/lost/torn; un-synced files absent; rename durable or not), single-bit flips of log files, and continuation after every fault; recovered dump must equal the reference model after some prefix p with floor <= p <= issued",
    category="fault_enumeration",
    text="Per execution ~6 (quick) / 12 (thorough) crash images per incarnation are materialised on tmpfs, opened with the real recovery code and judged; crashes that the history continues from, bit flips and clean reopens are further generated operations. Floors come both from the bytes below each file's last fsync and from what sync/checkpoint/close promised by returning. Open must succeed and never panic. A reference replay of each image (the format's rules re-implemented over the bytes, no tree code) tells a loss in what was written from a loss in how it is read back: the listed lost-tail findings only apply when the recovered state equals that replay. After every sync/wal_checkpoint/close that returns, no log file may hold written bytes that no fsync covers.",
    design_ref="DESIGN.md §3 C06, Part II B1.15",
    note="ext4-like directory-entry durability; atomic rename with sampled durability; op-granular prefixes; I/O errors not injected; checkpoint.meta is not bit-flipped. Several genuine defects of the pinned tree are listed in known_findings.jsonl and narrow what can still be observed behind them (see evidence.known_findings_seen).",
)

CHECKS["C20"] = dict(
    engine="SCHED",
    technique="deterministic simulation of thread schedules: 2-3 simulated threads under shuttle (random + PCT schedulers, recorded schedules) with every parking_lot acquire/release and every hooked atomic a scheduling point; outcome compared with all sequential interleavings of the same operations run on the real code, plus deadlock/no-progress/panic detection and memory-accounting invariants",
    category="exploration",
    text="Seeded search over scenarios (LpgStore core ops, LpgStore full op mix, RdfStore same-triple insert/remove, TransactionManager begin/write/commit/gc, BufferManager grants against a budget that fits k-1 of k requests, Catalog name dictionaries and index definitions, QueryCache at capacity 2, WalManager log/sync/rotate on one directory with rotation every 1-3 records, and one GrafeoDB with one Session per thread issuing direct-API calls, auto-commit statements and whole begin/INSERT/commit|rollback transactions), each explored under 40 (quick) / 120 (thorough) schedules (a quarter of that for the database family). Returns and final state (primary data and every derived structure as seen through its accessors) must equal those of some sequential order; ids unique; commit epochs unique and increasing; allocated() <= hard limit sampled after every operation and 0 after all grants are dropped; shuttle's deadlock detector and a 60k-step bound give no-deadlock / bounded progress.",
    design_ref="DESIGN.md §3 C20",
    note="Interleavings at lock-operation and hooked-atomic granularity; lock-free internals of dashmap/crossbeam are not explored at their own granularity. The LpgStore full-mix family has open known findings (component structures updated under separate locks) that mask further deviations in the same outcome component; the lpg-core, rdf, txm and buffer families have none.",
)

CHECKS["C01"] = dict(
    engine="HIST",
    technique="deterministic simulation of multi-session histories: the simulator owns all sessions of one GrafeoDB and draws the total order of begin/mutation/read/commit/rollback from the run seed; every read is compared with an executable snapshot-isolation reference model; deviations are classified against an unmodified twin of the pinned tree run in lock-step on the same history",
    category="exploration",
    text="Seeded search (20k quick / 1M thorough histories, 2-4 sessions, 6-60 steps) with every kind of read (35 access paths: GQL label/unlabelled scan, expand, two-hop chain and aggregates over it, count, sum, filter; the same label scan through Cypher, Gremlin, GraphQL and execute_with_params; SPARQL patterns; every point accessor of Session incl. incoming/typed neighbours, degrees, batch lookup; GrafeoDB direct counts/iteration/lookup) placed inside other sessions' open transactions, right after every commit/rollback by every session, and repeated inside transactions. The reference model (RefMvcc) pins a snapshot at begin, overlays the transaction's own writes, and publishes at commit. A read that differs from the model is a violation unless it is byte-for-byte the answer of the pinned tree on the same history AND its (access path, reader context) is listed in known_findings.jsonl.",
    design_ref="DESIGN.md §3 C01, §2.5a",
    note="The pinned tree violates C01 on almost every access path (see known findings: no real isolation); what this check still decides is that the working tree never deviates from the specification in any way the pinned tree did not. Interleaving granularity = whole session calls; overlapping writers of one entity are excluded (C03). The two-hop paths cannot be classified by the pinned twin (its factorized chain differs by repair 034eb0a): there a deviation is listed only when the answer is exactly the join of the same session's single-hop answer at the same instant. GQL `DELETE r` on an edge variable is not generated (both translators emit DeleteNode for it, DESIGN B3). Trusted: RefMvcc (~150 lines) and the id->slot normalisation.",
)
CHECKS["C02"] = dict(
    engine="HIST",
    technique="deterministic simulation of multi-session histories (half with one transaction under the microscope, half with overlapping transactions of 2-4 sessions); after every commit/rollback/session-drop a fresh session dumps the database through every access path and the dump is compared with the reference model's committed state; deviations classified against the lock-step pinned twin, runs continue behind deviations the twin shares",
    category="exploration",
    text="Seeded search (20k quick / 1M thorough) over transactions of 1-4 mutations (every mutation route) ended by commit, rollback or dropping the session while other sessions interleave committed work. After rollback/drop the dump must equal the model without the transaction, after commit with all of it. A differing dump is a violation unless it equals the pinned tree's dump on the same history and its (end, access path) is a listed known finding; in that case the run goes on, so later transaction ends (including those of other, still open or younger transactions) are judged too.",
    design_ref="DESIGN.md §3 C02, §2.5a, Part II B1.14",
    note="Failed commits cannot be produced through the public API on this tree (no write sets are registered by sessions), so that end is not generated. Same trusted base as C01.",
)

CHECKS["C13"] = dict(
    engine="RDF+SCHED",
    technique="deterministic simulation: seeded histories of triple insert/remove/clear, transaction buffers and SPARQL updates over the real RdfStore / GrafeoDB, every lookup shape compared with a set model after every step; plus thread-scheduled same-triple insert/remove scenarios under shuttle",
    category="exploration",
    text="Decides the history-, transaction- and thread-dependent half of the property: after any generated history all 8 bound/unbound shapes, per-position lookups, counts and every open transaction's pending view equal a BTreeSet model (each match exactly once), and concurrent insert/remove of one triple leaves indexes and primary set describing the same set. SPARQL is reached only through a fixed family of 16 templates evaluated by brute force. Deviations of the pending view and of a template are classified against the pinned twin run in lock-step (same answer = listed finding of that tree; any other answer is not listable).",
    design_ref="DESIGN.md §3 C13, Part II B1.15",
    note="NOT decided: 'all queries from the SPARQL core grammar' (pure function of triple set and query text). Ring index feature off.",
)
CHECKS["C15"] = dict(
    engine="CODEC",
    technique="deterministic simulation: seeded histories over the two stateful containers that embed the codecs (PropertyStorage with force-compress/decompress, ChunkedAdjacency with compaction, cold compression and freeze_all at chunk capacities 1/2/4/64), every read compared with a map / multiset model after every step",
    category="exploration",
    text="Decides the last sentence of the statement and the 'compressed adjacency chunks' item: a read after any history of writes, compressions and decompressions equals the model; deviations are classified against the pinned twin run in lock-step and a run continues behind deviations the twin shares (the pinned tree cannot read compressed values back, so without this nothing after the first compression would be judged). The integer (zig-zag+delta/bit-pack/RLE via TypeSpecificCompressor), dictionary and boolean codecs run end to end through compress_as_*/decompress_all; DeltaBitPacked/BitPackedInts through cold adjacency chunks.",
    design_ref="DESIGN.md §3 C15, Part II B1.14",
    note="NOT decided: the per-codec round-trip / random-access / byte-serialisation laws over all input sequences (pure functions of the input; property-based testing territory). CompressionMode is not exported, so Auto/Eager thresholds are unreachable from outside the crate.",
)

CHECKS["C07"] = dict(
    engine="SNAP",
    technique="deterministic simulation with stored-byte faults: source graphs reached by seeded mutation histories, copied through every route (export/import, save/open on tmpfs, to_memory, open_in_memory) and compared with a reference graph; every truncation and seeded single-bit flips of the exported blob fed to import and judged against an independent decode of the same bytes",
    category="exploration",
    text="Seeded search (6k quick / 400k thorough): copy == reference graph through iteration, point lookups and fixed queries; source unchanged; export deterministic; damaged blobs never panic the importer and never yield a partially filled database.",
    design_ref="DESIGN.md §3 C07",
    note="A damaged blob that still decodes as a version-1 snapshot counts as valid. wasm wrapper not covered.",
)

CHECKS["C18"] = dict(
    engine="VEC+VECMT",
    technique="deterministic simulation: (thread layer, 1 run in 20) 2-3 simulated threads inserting into, removing from and searching one HnswIndex under shuttle (random + PCT, recorded schedules, every lock operation inside hnsw.rs a scheduling point), each search judged against the presence windows of the ids (invoke/return stamps), state after join against inserted-minus-removed, deadlock/panic/no-progress detection; (history layer) seeded histories of insert/re-insert/remove/search/batch-search over the real HnswIndex (seeded level draw, fixed-hasher containers) with per-run dimension, metric, m/ef and magnitude; every result list judged against an id->vector model and scalar distance definitions",
    category="exploration",
    text="Decides the index-history half of the property: after any generated history a search returns at most k distinct ids that are all currently present, each with its true distance (f64 definition, tolerance scaled to the accumulated magnitude), in non-decreasing order; batch search equals one-by-one search; a non-empty index never answers a k>=1 search with nothing. Thread layer: a search running while other threads insert and remove returns only ids whose presence window can overlap the call (never one whose removal had returned before the search began), with true distances, sorted, distinct, at most k; after the threads finish len/contains/get/iter describe exactly inserted-minus-removed.",
    design_ref="DESIGN.md §3 C18, Part II B1.25",
    note="NOT decided: 'k results whenever k are reachable' (recorded as a probe only), exact-search optimality, SIMD-vs-scalar agreement and quantiser error bounds (pure functions of their inputs).",
)

CHECKS["C10"] = dict(
    engine="TWIN",
    technique="deterministic simulation of histories on three databases in lock-step: data changes (multigraph shapes: parallel edges, loops, paths), index creation/removal and repeated query texts (two sessions sharing the plan cache) are applied to A (indexes, plan cache, factorized), B (no index, no plan cache) and C (no index, flat execution); row multisets compared after every query, plus brute force over a model for the unambiguous templates",
    category="exploration",
    text="Decides the history-dependent half of the property (plan cached before the data, the statistics or the index set changed; index created or dropped between executions of one query text; cache shared across sessions; spacing variants of one text) over a fixed template family (80k quick / 2M thorough histories). A wrong answer does not end the run (queries change nothing).",
    design_ref="DESIGN.md §3 C10",
    note="NOT decided: 'for all queries and graphs' as a universal statement about the planner (pure function of graph, query, configuration). Cache eviction is not reached (capacity 1000).",
)

CHECKS["C17"] = dict(
    engine="PAR+SPILL",
    technique="deterministic simulation of thread schedules: ParallelPipeline's own scoped worker threads are handed to shuttle through a cfg-guarded std::thread::scope seam; every parking_lot lock operation and every atomic of scheduler.rs/pipeline.rs is a scheduling point; output compared with a brute-force sequential evaluation. SPILL: the spilling sort and the spilling hash aggregate over generated tables with the spill files behind the file seam: memory budget, write-buffer size and an I/O fault plan (n-th file operation fails once / from then on, as generic error or disk full; EINTR once) are drawn per run; answer compared with the non-spilling operator and a brute-force model, spill directory and accounting checked afterwards",
    category="exploration",
    text="Decides the schedule-, budget- and fault-dependent part: the spilling operators give the in-memory answer under every generated budget (threshold 1 row .. never) and buffer size, turn a hard I/O fault into an error (never a panic or a different answer), are transparent to EINTR, and leave no spill file and zero accounting behind (10.8k quick / 180k thorough runs). PAR: for generated tables around the morsel boundaries and seven operator chains, 1-4 workers and five chunk sizes, every explored schedule (8 quick / 24 thorough per scenario; random and PCT) of morsel hand-out, stealing and result collection yields the rows (or mergeable partials) of sequential evaluation, the right rows_processed and morsel count, and no deadlock/panic.",
    design_ref="DESIGN.md §3 C17",
    note="NOT decided: pull-vs-push equality, single-threaded chunk/morsel-size independence, merge.rs/fold.rs as functions of their inputs (pure); the async spill manager/files (tokio file I/O, no simulated runtime); spilling joins do not exist in this tree. crossbeam's deque runs real code but only in sequentially consistent interleavings at the granularity of the hooked points.",
)

NOT_APPLICABLE = {
    "C08": "pure function of (graph, query text): no schedule, clock, I/O, fault or shared state in the statement or its quantifier; differential/reference-interpreter testing is the fitting family, not simulation",
    "C09": "pure function of (graph, statistics state, query, optimizer switches); stale statistics are an input, not a schedule",
    "C11": "algebraic identities between results of pure queries; chunk-boundary behaviour is deterministic in the input",
    "C12": "quantifies over input strings only (fuzzing); a watchdog is not a simulated clock",
    "C16": "laws of Eq/Hash/Ord and codecs of Value: pure relations on values",
    "C19": "graph algorithms on a fixed input graph: pure functions of their input",
}
PENDING = {}
for pid in ["C01","C02","C05","C06","C07","C10","C13","C14","C15","C17","C18","C20"]:
    if pid not in CHECKS:
        PENDING[pid] = "engine for this property is designed (DESIGN.md) but not built/committed yet; not claimed until its check runs clean on the unchanged tree"

manifest = {
    "version": 1,
    "setup_cmd": "./run setup",
    "hooks": {
        "guard": "--cfg grafeo_verif",
        "enable": "RUSTFLAGS='--cfg grafeo_verif' via /verif/sim/.cargo/config.toml; the simulator crate /verif/sim depends on /repo/crates/* by path and patches parking_lot with /verif/shims/parking_lot",
        "baseline_off_cmd": "cd /repo && cargo nextest run --workspace --no-fail-fast --tool-config-file pb:/w/lib/nextest.toml --profile pb --test-threads 8 --offline",
        "source_commits": HOOK_COMMITS,
        "add_only": True,
    },
    "engines": [
        {"name": "TXM", "path": "sim/src/eng_txm.rs", "serves_properties": ["C03", "C04"], "kind_free_text": "single-threaded history simulator over TransactionManager with a reference model"},
        {"name": "STORE", "path": "sim/src/eng_store.rs", "serves_properties": ["C14"], "kind_free_text": "single-store history simulator over LpgStore with a brute-force reference graph"},
        {"name": "HIST", "path": "sim/src/eng_hist.rs", "serves_properties": ["C01", "C02", "C03"], "kind_free_text": "multi-session history simulator: working tree, RefMvcc specification and the pinned twin (/verif/pinned) in lock-step"},
        {"name": "RDF", "path": "sim/src/eng_rdf.rs", "serves_properties": ["C13"], "kind_free_text": "history simulator over RdfStore / SPARQL templates with a set model"},
        {"name": "CODEC", "path": "sim/src/eng_codec.rs", "serves_properties": ["C15"], "kind_free_text": "history simulator over PropertyStorage and ChunkedAdjacency with map models"},
        {"name": "SNAP", "path": "sim/src/eng_snap.rs", "serves_properties": ["C07"], "kind_free_text": "copy routes over history-built graphs; byte faults on the snapshot blob"},
        {"name": "VEC", "path": "sim/src/eng_vec.rs", "serves_properties": ["C18"], "kind_free_text": "history simulator over HnswIndex with an id->vector model"},
        {"name": "VECMT", "path": "sim/src/eng_vecmt.rs", "serves_properties": ["C18"], "kind_free_text": "shuttle-scheduled threads inserting, removing and searching one HnswIndex; presence-window oracle"},
        {"name": "TWIN", "path": "sim/src/eng_twin.rs", "serves_properties": ["C10"], "kind_free_text": "three databases in lock-step (indexes+cache+factorized / no cache / flat)"},
        {"name": "PAR", "path": "sim/src/eng_par.rs", "serves_properties": ["C17"], "kind_free_text": "ParallelPipeline workers as shuttle threads via the scoped-thread seam"},
        {"name": "SPILL", "path": "sim/src/eng_spill.rs", "serves_properties": ["C17"], "kind_free_text": "spilling sort / aggregate with the spill files behind the file seam: memory budgets, buffer sizes, injected I/O errors, disk full and EINTR"},
        {"name": "SCHED", "path": "sim/src/eng_sched.rs", "serves_properties": ["C20", "C03", "C13"], "kind_free_text": "shuttle-scheduled simulated threads over the real stores/managers via the parking_lot lock seam (shims/parking_lot) and hooked atomics"},
        {"name": "DISK", "path": "sim/src/eng_disk.rs", "serves_properties": ["C05", "C06"], "kind_free_text": "persistent GrafeoDB over a tapped tmpfs directory + simulated clock; crash images computed from the disk-event log; reference replay of the image bytes"},
    ],
    "checks": [],
    "notes": "Deterministic simulation with fault injection. One binary (sim/), one PRNG stream per run derived from VERIF_SEED (default 1). Exit 2 = harness error. Known findings: known_findings.jsonl.",
    "not_applicable": [],
}
for pid, c in sorted(CHECKS.items()):
    manifest["checks"].append({
        "property_id": pid,
        "quick_cmd": f"./run {pid} quick",
        "thorough_cmd": f"./run {pid} thorough",
        "evidence_file": f"/verif/evidence/{pid}.json",
        "replay_cmd_template": "./run replay {path}",
        "engine": c["engine"],
        "level_claimed": {"category": c["category"], "text": c["text"], "design_ref": c["design_ref"]},
        "level_note": c["note"],
        "technique": c["technique"],
    })
for pid, r in sorted({**NOT_APPLICABLE, **PENDING}.items()):
    manifest["not_applicable"].append({"property_id": pid, "reason": r})
json.dump(manifest, open("/verif/MANIFEST.json", "w"), indent=1)
print("wrote MANIFEST.json:", len(manifest["checks"]), "checks,", len(manifest["not_applicable"]), "not claimed")
