#!/usr/bin/env python3
"""Determinism self-check of the simulator.

For every check and every seed given, runs the check several times in fresh processes with
different worker counts and compares (a) the batch digest printed by the binary (a hash over
every run's recorded outcome in run-index order), (b) the exit status, (c) the set of
KNOWN-FINDING / VIOLATION lines and (d) the schedule-independent part of the evidence file
(runs, faults injected, distinct interleavings, probes).  Any difference is a harness error:
a seed would not be one execution.

usage: selfcheck.py [--seeds 1,2,3] [--runs-scale 0.1] [--checks C01,C02] [--workers 16,3,1]
"""
import argparse, json, os, re, shutil, subprocess, sys, tempfile

ROOT = os.path.dirname(os.path.dirname(os.path.abspath(__file__)))
BIN = os.path.join(os.environ.get("CARGO_TARGET_DIR", os.path.join(ROOT, "target")), "release", "grafeo-sim")

# quick-tier run counts (kept in step with checks.rs; only used to scale down)
QUICK = {"C01": 20000, "C02": 20000, "C03": 300000, "C04": 300000, "C05": 40000, "C06": 20000,
         "C07": 6000, "C10": 80000, "C13": 20000, "C14": 100000, "C15": 40000, "C17": 12000,
         "C18": 20000, "C20": 2000}


def one(check, seed, workers, runs, home):
    shutil.rmtree(home, ignore_errors=True)
    os.makedirs(os.path.join(home, "evidence"))
    os.makedirs(os.path.join(home, "replays"))
    shutil.copy(os.path.join(ROOT, "known_findings.jsonl"), home)
    env = dict(os.environ, VERIF_HOME=home, VERIF_SEED=str(seed), VERIF_WORKERS=str(workers), VERIF_RUNS=str(runs))
    p = subprocess.run([BIN, "check", check, "--tier", "quick"], env=env, capture_output=True, text=True)
    out = p.stdout
    digest = re.findall(r"digest=([0-9a-f]+)", out)
    lines = sorted(l for l in out.splitlines() if l.startswith(("KNOWN-FINDING", "VIOLATION")))
    # replay paths carry nothing schedule dependent but live under `home`
    lines = [l.replace(home, "<home>") for l in lines]
    ev = {}
    try:
        with open(os.path.join(home, "evidence", check + ".json")) as f:
            e = json.load(f).get("coverage", {})
        for k in ("runs", "faults_injected", "distinct_interleavings", "probes", "steps", "simulated_ms",
                  "known_findings_seen", "distinct_nontrivial", "evaluations", "batch_digest"):
            if k in e:
                ev[k] = e[k]
    except Exception as ex:  # noqa
        ev = {"error": str(ex)}
    return {"rc": p.returncode, "digest": digest, "lines": lines, "evidence": ev}


def main():
    ap = argparse.ArgumentParser()
    ap.add_argument("--seeds", default="1,2,3")
    ap.add_argument("--runs-scale", type=float, default=0.1)
    ap.add_argument("--checks", default=",".join(sorted(QUICK)))
    ap.add_argument("--workers", default="16,3,1")
    a = ap.parse_args()
    seeds = [int(s) for s in a.seeds.split(",")]
    workers = [int(w) for w in a.workers.split(",")]
    bad = 0
    total = 0
    base = tempfile.mkdtemp(prefix="selfcheck.", dir=os.path.join(ROOT, "target"))
    try:
        for c in a.checks.split(","):
            runs = max(50, int(QUICK[c] * a.runs_scale))
            for s in seeds:
                res = [one(c, s, w, runs, os.path.join(base, "h")) for w in workers]
                total += 1
                ok = all(r == res[0] for r in res[1:]) and res[0]["rc"] in (0, 1) and res[0]["digest"]
                print(f"{c} seed={s} runs={runs} workers={workers} digest={res[0]['digest']} rc={res[0]['rc']} "
                      f"{'same' if ok else 'DIFFERENT'}", flush=True)
                if not ok:
                    bad += 1
                    for w, r in zip(workers, res):
                        print(f"   workers={w}: {json.dumps(r, sort_keys=True)[:2000]}")
    finally:
        shutil.rmtree(base, ignore_errors=True)
    print(f"selfcheck: {total} (check, seed) pairs x {len(workers)} worker counts, {bad} not reproducible")
    sys.exit(2 if bad else 0)


if __name__ == "__main__":
    main()
