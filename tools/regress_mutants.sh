#!/usr/bin/env bash
# usage: tools/regress_mutants.sh [filter]  — applies every seeded change (/verif/seeded/*/patch.diff)
# and every hand-written mutant (/verif/mutants/*.patch) to /repo in turn, runs the quick tier of
# the property's check against it and reverts. Prints one line per change. /repo must be clean.
set -u
cd /repo || exit 2
if [ -n "$(git status --porcelain)" ]; then echo "repo not clean" >&2; exit 2; fi
filter="${1:-}"
export VERIF_HOME=/verif/target/regress_home
rm -rf "$VERIF_HOME"; mkdir -p "$VERIF_HOME"; cp /verif/known_findings.jsonl "$VERIF_HOME/"
caught=0; missed=0
for p in /verif/seeded/*/patch.diff /verif/mutants/*.patch; do
  case "$p" in *"$filter"*) ;; *) continue;; esac
  if [[ "$p" == */seeded/* ]]; then name=$(basename "$(dirname "$p")"); else name=$(basename "$p" .patch); fi
  prop=$(echo "$name" | sed -E 's/^[cC]([0-9][0-9]).*/C\1/')
  cd /repo
  if ! git apply "$p" 2>/dev/null; then echo "$name: patch does not apply (tree moved on)"; continue; fi
  (cd /verif && ./run "$prop" quick) > "$VERIF_HOME/out.txt" 2>&1; code=$?
  git checkout -q -- .
  v=$(grep -c '^VIOLATION' "$VERIF_HOME/out.txt")
  if [ "$code" = 1 ]; then caught=$((caught+1)); res="caught ($v)"; else missed=$((missed+1)); res="NOT CAUGHT (exit $code)"; fi
  echo "$name -> $prop: $res :: $(grep -m1 '^violation' "$VERIF_HOME/out.txt" | cut -c1-160)"
done
rm -rf "$VERIF_HOME"
echo "caught=$caught missed=$missed"
