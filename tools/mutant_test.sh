#!/usr/bin/env bash
# usage: tools/mutant_test.sh <patch> <property> [tier]   — applies the patch to /repo, runs the check, reverts.
set -u
patch="$1"; prop="$2"; tier="${3:-quick}"
cd /repo || exit 2
if [ -n "$(git status --porcelain)" ]; then echo "repo not clean" >&2; exit 2; fi
git apply "$patch" || { echo "patch does not apply" >&2; exit 2; }
cd /verif && ./run "$prop" "$tier" > /tmp/mutant_out.txt 2>&1; code=$?
cd /repo && git checkout -- . 
grep -E "^(VIOLATION|violation)" /tmp/mutant_out.txt | head -4
tail -1 /tmp/mutant_out.txt
echo "exit=$code"
