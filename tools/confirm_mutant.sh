#!/usr/bin/env bash
# usage: tools/confirm_mutant.sh <id> <worktree> <crate> <demo-dest-relative-to-worktree> [extra cargo args for the demo]
# Confirms: patch applies; demo fails with patch, passes without; crate lib tests pass with patch.
set -u
id="$1"; wt="$2"; crate="$3"; dest="$4"; shift 4; extra="$*"
export CARGO_TARGET_DIR="$wt/target" CARGO_NET_OFFLINE=true
cd "$wt" || exit 2
git checkout -q -- crates 2>/dev/null
name=$(basename "$dest" .rs)
mkdir -p "$(dirname "$dest")"; cp _mutant/demo.rs "$dest"
echo "--- demo WITHOUT patch"; cargo test --offline -p "$crate" --test "$name" $extra 2>&1 | grep -E "^test result|error(\[|:)" | head -3
git apply _mutant/patch.diff || { echo "PATCH DOES NOT APPLY"; exit 2; }
echo "--- demo WITH patch"; cargo test --offline -p "$crate" --test "$name" $extra 2>&1 | grep -E "^test result|panicked|error(\[|:)" | head -4
rm -f "$dest"
echo "--- existing lib tests WITH patch"; cargo test --offline -p grafeo-common -p grafeo-core -p grafeo-adapters -p grafeo-engine --lib 2>&1 | grep -E "^test result|FAILED|failed" | head -8
git checkout -q -- crates
mkdir -p /verif/seeded/$id && cp _mutant/patch.diff _mutant/demo.rs _mutant/meta.json /verif/seeded/$id/ 2>/dev/null
echo "copied to /verif/seeded/$id"
